#!/usr/bin/env python3
"""Helper for seeded changes (never commits anything to /repo).

  seed.py validate <dir-with-out>            confirm in a scratch worktree: applies, builds, suite passes,
                                             demo fails with the change and passes without it
  seed.py run <patch.diff> <PROP> [tier]     apply to a scratch worktree of /repo (VERIF_REPO), run ./check, drop the worktree
  seed.py sweep [name...]                    apply every kept change in turn to a scratch worktree, run its property's quick check, reset;
                                             results in /verif/seeded/RESULTS.json (evidence goes to .build/)
  seed.py keep <dir-with-out> <name>         copy patch/demo/meta to /verif/seeded/<name>/
"""
import json
import os
import shutil
import subprocess
import sys

VERIF = os.path.dirname(os.path.dirname(os.path.abspath(__file__)))
ENV = dict(os.environ, GOFLAGS="-mod=mod", GOPROXY="off")
ENV.pop("GOSUMDB", None)


def sh(cmd, cwd=None, timeout=1800):
    p = subprocess.run(cmd, cwd=cwd, env=ENV, shell=True, stdout=subprocess.PIPE, stderr=subprocess.STDOUT, text=True, timeout=timeout)
    return p.returncode, p.stdout


def validate(d):
    out = os.path.join(d, "out")
    patch = os.path.join(out, "patch.diff")
    wt = "/tmp/seedval-%d" % os.getpid()
    sh("git -C /repo worktree remove --force %s" % wt)
    base = "HEAD"
    if "--base" in sys.argv:
        base = sys.argv[sys.argv.index("--base") + 1]
    rc, o = sh("git -C /repo worktree add --detach %s %s" % (wt, base))
    if rc != 0:
        print(o)
        return 2
    res = {}
    try:
        rc, o = sh("git apply --check %s && git apply %s" % (patch, patch), cwd=wt)
        res["applies"] = rc == 0
        if rc != 0:
            print(o)
            return 1
        rc, o = sh("go build ./... && (test ! -f pfcpiface/verif_hooks.go || go build -tags verif ./pfcpiface/)", cwd=wt)
        res["builds"] = rc == 0
        if rc != 0:
            print(o[-3000:])
        is_py = any(f.endswith(".py") for f in os.listdir(out) if f != "meta.json")
        rc, o = sh("go test -vet=off -count=1 ./cmd/... ./pfcpiface/... ./pkg/... ./internal/... 2>&1 | tail -15", cwd=wt)
        res["suite_passes"] = "FAIL" not in o
        if not res["suite_passes"]:
            print(o[-3000:])
        # demo
        demos = [f for f in os.listdir(out) if f.endswith("_test.go")]
        meta = {}
        try:
            meta = json.load(open(os.path.join(out, "meta.json")))
        except Exception:
            pass
        res["demo_cmd"] = meta.get("demo_cmd")
        if demos:
            for f in demos:
                src = open(os.path.join(out, f)).read()
                pkg = "pfcpiface"
                for line in src.splitlines():
                    if line.startswith("package "):
                        pkg = line.split()[1]
                        break
                dst = {"pfcpiface": "pfcpiface", "main": "cmd/pfcpiface"}.get(pkg, "pfcpiface")
                shutil.copy(os.path.join(out, f), os.path.join(wt, dst, f))
            names = "|".join(sorted(set(n for f in demos for n in __import__("re").findall(r"func (Test\w+)\(", open(os.path.join(out, f)).read()))))
            cmd = "go test -vet=off -count=1 -run '^(%s)$' ./pfcpiface/ 2>&1 | tail -25" % names
            rc, o1 = sh(cmd, cwd=wt)
            res["demo_fails_with_change"] = "FAIL" in o1
            sh("git apply -R %s" % patch, cwd=wt)
            rc, o2 = sh(cmd, cwd=wt)
            res["demo_passes_without_change"] = ("FAIL" not in o2) and ("ok" in o2)
            if not res["demo_fails_with_change"]:
                print("WITH CHANGE:\n" + o1[-2000:])
            if not res["demo_passes_without_change"]:
                print("WITHOUT CHANGE:\n" + o2[-2000:])
        else:
            res["demo"] = "non-Go demo; validate by hand: %s" % meta.get("demo_cmd")
    finally:
        sh("git -C /repo worktree remove --force %s" % wt)
    print(json.dumps(res, indent=1))
    return 0


def scratch_tree():
    """A scratch worktree of /repo's HEAD (outside /repo and /verif); the checks are pointed at it with VERIF_REPO,
    so /repo itself is never modified and an interrupted sweep leaves nothing applied there."""
    base = "/tmp/seedwt-%d" % os.getpid()
    wt = os.path.join(base, "repo")
    sh("git -C /repo worktree remove --force %s" % wt)
    shutil.rmtree(base, ignore_errors=True)
    os.makedirs(base)
    rc, o = sh("git -C /repo worktree add --detach %s HEAD" % wt)
    if rc != 0:
        raise SystemExit("cannot create scratch worktree: " + o)
    return wt


def drop_tree(wt):
    sh("git -C /repo worktree remove --force %s" % wt)
    shutil.rmtree(os.path.dirname(wt), ignore_errors=True)
    sh("git -C /repo worktree prune")


def run(patch, prop, tier="quick"):
    patch = os.path.abspath(patch)
    wt = scratch_tree()
    try:
        rc, o = sh("git -C %s apply %s" % (wt, patch))
        if rc != 0:
            print("patch does not apply:\n" + o)
            return 2
        env = dict(os.environ, VERIF_EVIDENCE_DIR=os.path.join(VERIF, ".build", "evidence-seeded"), VERIF_REPO=wt)
        p = subprocess.run([os.path.join(VERIF, "check"), prop, tier] + sys.argv[5:], cwd=VERIF, env=env)
        rc = p.returncode
    finally:
        drop_tree(wt)
    print("seed.py: check exit", rc)
    return rc


def sweep(names):
    """Applies every kept change in turn and runs its property's quick check; writes seeded/RESULTS.json."""
    import re
    root = os.path.join(VERIF, "seeded")
    path = os.path.join(root, "RESULTS.json")
    results = json.load(open(path)) if os.path.exists(path) else {}
    rc, head = sh("git -C /repo rev-parse --short HEAD")
    wt = scratch_tree()
    try:
        return _sweep(names, root, path, results, head, wt)
    finally:
        drop_tree(wt)


def _sweep(names, root, path, results, head, wt):
    import re
    for name in sorted(os.listdir(root)):
        d = os.path.join(root, name)
        patch = os.path.join(d, "patch.diff")
        if not os.path.isfile(patch) or (names and name not in names):
            continue
        meta = json.load(open(os.path.join(d, "meta.json")))
        prop = meta["property"]
        rc, o = sh("git -C %s apply --check %s" % (wt, patch))
        ported = False
        if rc != 0:
            # the tree has moved on since the change was written (repairs next to it): try a three-way merge with the
            # blobs the patch names; a conflict means the change really no longer applies
            rc3, o3 = sh("git -C %s apply -3 %s" % (wt, patch))
            if rc3 != 0 or "<<<<<<<" in sh("git -C %s diff" % wt)[1]:
                sh("git -C %s reset -q --hard HEAD" % wt)
                results[name] = {"property": prop, "repo_head": head.strip(), "result": "does-not-apply",
                                 "detail": "the patch no longer applies to the repaired tree (see meta.json for its disposition)"}
                print(name, "does not apply")
                continue
            rcb, ob = sh("cd %s && GOFLAGS=-mod=mod GOPROXY=off go build ./... 2>&1 | tail -3" % wt)
            if "rror" in ob or "cannot" in ob:
                sh("git -C %s reset -q --hard HEAD" % wt)
                results[name] = {"property": prop, "repo_head": head.strip(), "result": "does-not-apply",
                                 "detail": "merged three-way but no longer builds on the repaired tree"}
                print(name, "does not apply (merged, does not build)")
                continue
            ported = True
        else:
            sh("git -C %s apply %s" % (wt, patch))
        try:
            env = dict(os.environ, VERIF_EVIDENCE_DIR=os.path.join(VERIF, ".build", "evidence-seeded"), VERIF_FAILFAST="1", VERIF_REPO=wt)
            import time
            t0 = time.time()
            p = subprocess.run([os.path.join(VERIF, "check"), prop, "quick"], cwd=VERIF, env=env,
                               stdout=subprocess.PIPE, stderr=subprocess.STDOUT, text=True)
            out = p.stdout
        finally:
            sh("git -C %s reset -q --hard HEAD && git -C %s clean -fdq" % (wt, wt))
        msg = ""
        for pat in (r"common_test\.go:\d+: (C\d\d/[^\n]*)", r"\[check\] failure: (process died[^\n]*)", r"(C20 violation:[^\n]*)",
                    r"\[check\] failure: ([^\n]*)", r"\[check\] (INCONCLUSIVE[^\n]*)", r"\[check\] (BUILD[^\n]*)"):
            m = re.search(pat, out)
            if m:
                msg = " ".join(m.group(1).split())[:400]
                break
        results[name] = {"property": prop, "repo_head": head.strip(), "exit": p.returncode,
                         "result": {0: "MISSED", 1: "caught"}.get(p.returncode, "inconclusive"),
                         "wall_s": round(time.time() - t0, 1), "first_failure": msg}
        if ported:
            results[name]["ported"] = "applied by three-way merge (the tree has moved on since the change was written)"
        print(name, results[name]["result"], results[name]["wall_s"], msg[:160], flush=True)
        json.dump(results, open(path, "w"), indent=1, sort_keys=True)
    json.dump(results, open(path, "w"), indent=1, sort_keys=True)
    shutil.rmtree(os.path.join(VERIF, "replays"), ignore_errors=True)
    return 0


def table():
    """Rewrites the table between the sweep markers of DESIGN.md from seeded/RESULTS.json."""
    res = json.load(open(os.path.join(VERIF, "seeded", "RESULTS.json")))
    rows = ["| change | property | /repo head | result of the property's quick check | first failure reported / note |", "|---|---|---|---|---|"]
    for name in sorted(res):
        r = res[name]
        note = r.get("first_failure") or r.get("detail") or ""
        try:
            meta = json.load(open(os.path.join(VERIF, "seeded", name, "meta.json")))
            extra = (meta.get("verif") or {}).get("note") or ""
            if r["result"] != "caught" and extra:
                note = extra
            elif r["result"] == "MISSED" and (meta.get("verif") or {}).get("result"):
                note = meta["verif"]["result"]
        except Exception:
            pass
        if r.get("ported"):
            note = "(three-way merged onto the current tree) " + note
        note = note.replace("|", "/")[:260]
        rows.append("| %s | %s | %s | %s | %s |" % (name, r["property"], r.get("repo_head", "?"), r["result"], note))
    n = {k: sum(1 for r in res.values() if r["result"] == k) for k in ("caught", "MISSED", "does-not-apply", "inconclusive")}
    heads = {}
    for r in res.values():
        heads[r.get("repo_head", "?")] = heads.get(r.get("repo_head", "?"), 0) + 1
    head = "Sweep results (each row says at which /repo head it was obtained; %s): %d caught, %d missed, %d no longer applicable, %d inconclusive.\n\n" % (
        ", ".join("%d at %s" % (v, k) for k, v in sorted(heads.items(), key=lambda kv: -kv[1])), n["caught"], n["MISSED"], n["does-not-apply"], n["inconclusive"])
    p = os.path.join(VERIF, "DESIGN.md")
    s = open(p).read()
    a, b = "<!-- sweep:begin -->", "<!-- sweep:end -->"
    if a not in s:
        s = s.replace("@@SWEEP_TABLE@@", a + "\n" + b)
    i, j = s.index(a) + len(a), s.index(b)
    s = s[:i] + "\n" + head + "\n".join(rows) + "\n" + s[j:]
    open(p, "w").write(s)
    print(head.strip())
    return 0


def keep(d, name):
    out = os.path.join(d, "out")
    dst = os.path.join(VERIF, "seeded", name)
    os.makedirs(dst, exist_ok=True)
    for f in os.listdir(out):
        if os.path.isdir(os.path.join(out, f)):
            shutil.copytree(os.path.join(out, f), os.path.join(dst, f), dirs_exist_ok=True)
            continue
        shutil.copy(os.path.join(out, f), os.path.join(dst, f + (".txt" if f.endswith("_test.go") else "")))
    print("kept in", dst)
    return 0


if __name__ == "__main__":
    a = sys.argv
    if len(a) >= 3 and a[1] == "validate":
        sys.exit(validate(a[2]))
    if len(a) >= 4 and a[1] == "run":
        sys.exit(run(a[2], a[3], a[4] if len(a) > 4 else "quick"))
    if len(a) >= 2 and a[1] == "table":
        sys.exit(table())
    if len(a) >= 2 and a[1] == "sweep":
        sys.exit(sweep(a[2:]))
    if len(a) >= 4 and a[1] == "keep":
        sys.exit(keep(a[2], a[3]))
    print(__doc__)
    sys.exit(2)
