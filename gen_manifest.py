#!/usr/bin/env python3
"""Regenerates MANIFEST.json from checks_table.py and manifest_texts.py."""
import json
import os
import subprocess

import checks_table
import manifest_texts as mt

HERE = os.path.dirname(os.path.abspath(__file__))
props = [json.loads(l) for l in open(os.path.join(HERE, "properties.jsonl"))]

hook_commits = []
try:
    out = subprocess.run(["git", "-C", "/repo", "log", "--format=%H %s"], stdout=subprocess.PIPE, text=True).stdout
    for line in out.splitlines():
        h, s = line.split(" ", 1)
        if s.startswith("verif hooks:") or s.startswith("hooks:"):
            hook_commits.append(h)
except Exception:
    pass

baseline = ("cd /repo && GOFLAGS=-mod=mod go build ./... && "
            "go test -vet=off -count=1 -timeout 25m ./...")

checks = []
na = []
for p in props:
    pid = p["id"]
    if pid in checks_table.CHECKS and pid in mt.TEXT:
        spec = checks_table.CHECKS[pid]
        t = mt.TEXT[pid]
        checks.append({
            "property_id": pid,
            "quick_cmd": "./check %s quick" % pid,
            "thorough_cmd": "./check %s thorough" % pid,
            "evidence_file": "/verif/evidence/%s.json" % pid,
            "replay_cmd_template": "./check %s quick --replay {path}" % pid,
            "engine": t.get("engine", "rapid-wire"),
            "level_claimed": {"category": spec["level"], "text": t["level_text"], "design_ref": "DESIGN.md section 7, " + pid},
            "level_note": t["level_note"],
            "technique": t["technique"],
        })
    else:
        na.append({"property_id": pid, "reason": mt.NA.get(pid, "check not built yet in this session; planned in DESIGN.md section 7")})

m = {
    "version": 1,
    "setup_cmd": "./setup.sh",
    "hooks": {
        "guard": "verif",
        "enable": "go test -c -tags verif (harness module with replace github.com/omec-project/upf-epc => /repo)",
        "baseline_off_cmd": baseline,
        "source_commits": hook_commits,
        "add_only": True,
    },
    "engines": [
        {"name": "rapid-wire", "path": "harness/props", "kind_free_text": "pgregory.net/rapid generators driving the real agent in-process over UDP/gRPC/HTTP/unix sockets against harness-owned BESS and P4Runtime servers, reference model + denotation oracles",
         "serves_properties": [c["property_id"] for c in checks if c["engine"] == "rapid-wire"]},
        {"name": "rapid-direct", "path": "harness/props", "kind_free_text": "pgregory.net/rapid and bounded enumeration directly on exported/hooked functions",
         "serves_properties": [c["property_id"] for c in checks if c["engine"] == "rapid-direct"]},
        {"name": "hypothesis-c20", "path": "py/c20", "kind_free_text": "Hypothesis RuleBasedStateMachine over conf/route_control.py with stub pyroute2/pybess/scapy",
         "serves_properties": [c["property_id"] for c in checks if c["engine"] == "hypothesis-c20"]},
    ],
    "checks": checks,
    "notes": "Driver: ./check <ID> quick|thorough [--replay F]; exit 0 held / 1 VIOLATION / 2 inconclusive. Known findings: known_findings.jsonl. See DESIGN.md.",
    "not_applicable": na,
}
json.dump(m, open(os.path.join(HERE, "MANIFEST.json"), "w"), indent=1)
try:
    import jsonschema
    jsonschema.validate(m, json.load(open("/root/.vp/MANIFEST.schema.json")))
    print("MANIFEST.json valid; claimed:", [c["property_id"] for c in checks])
except ImportError:
    print("MANIFEST.json written (jsonschema not available to validate)")
