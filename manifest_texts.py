"""Texts for MANIFEST.json, one entry per claimed property."""

WIRE_NOTE = ("Trusts go-pfcp for decoding responses, the harness-owned BESS/P4Runtime servers (table semantics written from conf/up4.bess and the "
             "P4Runtime specification, not from code under test) and the probe argument (per-association handling is sequential, so everything read "
             "before the answer to a following probe heartbeat is the complete reaction to the injected datagram). Exploration never proves absence.")

TEXT = {
    "C01": {
        "engine": "rapid-wire",
        "technique": "grammar-based IE-tree mutation fuzzing (rapid) of every PFCP message type injected at drawn points of association/session histories, with liveness probe and follow-up scenario oracle; crash attribution by journal + delta debugging",
        "level_text": "Mutants (drop/duplicate/empty/truncate/retype/reorder/unknown IE/IPv6-only/FQDN Node IDs with empty, non-UTF-8, over-long or inconsistent labels/CHOOSE flags/flow-description surgery/header surgery, byte-level corruption, garbage, and unmutated templates in unusual states) of templates of all dispatched and undispatched message types are sent over UDP to the real agent on BESS and UP4 in states none/associated/session/modified/zero-PDR/deleted/released, with UE-IP allocation and heartbeats on and off. Oracle: process alive, probe heartbeat answered, at most one datagram back per datagram; when every injected datagram was dropped or rejected, a valid request on the SAME association (no new Association Setup) is still accepted; a canonical valid scenario afterwards succeeds on the same peer and on another. A process death is attributed to the case in flight, confirmed in a fresh process and delta-debugged.",
        "level_note": WIRE_NOTE,
    },
    "C02": {
        "engine": "rapid-wire",
        "technique": "stateful property-based testing (rapid) of the real agent over UDP with a per-request response-shape oracle and heartbeat probes",
        "level_text": "Generated histories over 1-3 associations and several sessions are sent to the real agent over UDP; after every request the harness reads everything that comes back before the answer to a following probe heartbeat and checks count, type, sequence number, header SEID, Node ID, UP F-SEID, Created PDR set and rejection shape against the reference model; the order of member IEs inside grouped IEs is generated. Exploration: thousands of histories per run, shrunk to a JSON replay on failure.",
        "level_note": WIRE_NOTE,
    },
    "C03": {
        "engine": "rapid-wire",
        "technique": "model-based stateful testing (rapid): reference model of session rules with a denotation into BESS tables, compared with the harness BESS server's settled snapshot after every accepted request, plus differential packet classification on boundary samples",
        "level_text": "Histories of establish/modify (create, update, remove of PDR/FAR/QER)/delete/release over up to 6 live sessions and 3 associations run against the real agent and a harness BESS gRPC server with WildcardMatch/ExactMatch/Qos semantics. After every accepted request the snapshot must equal the denotation of the model: every entry attributable to a live rule, value/mask pairs of the eight match fields, port sets by set semantics, gate, FAR id, first application QER, priority order, one FAR entry with action/tunnel fields, two entries per QER in exactly one module, nothing else; boundary packets around every rule are classified by the datapath lookup and by the statement's match predicate. Requests for unknown sessions / without association must be rejected with zero commands. Crash points: the real cmd/pfcpiface binary is killed with SIGKILL after the k-th response or with a request in flight and restarted against the same, junk-pre-populated server; the first commands must clear the four lookup modules (never sliceMeter) and the tables must equal the image of the new incarnation's sessions only.",
        "level_note": WIRE_NOTE + " Exact-image oracle only inside the supported IPv4 envelope (DESIGN.md section 5).",
    },
    "C06": {
        "engine": "rapid-direct",
        "technique": "model-based property testing of the exported IPPool (rapid), bounded-exhaustive enumeration on small pools, and linearizability checking of concurrent histories with porcupine under the race detector",
        "level_text": "Sequential: every alloc/lookup/release sequence is compared step by step with a set model (in range, not network/broadcast, exclusive, sticky, refusal only when full) and closed by a fill-until-refusal conservation check; all sequences of 8 operations up to length 6 (/30) and 5 (/29) are enumerated. Concurrent: 2-8 goroutines run generated programs under -race and the call/return history must be linearizable w.r.t. the pool specification.",
        "level_note": "Trusts porcupine's checker and the Go race detector; concurrent schedules are sampled by the Go scheduler, not enumerated.",
    },
    "C08": {
        "engine": "rapid-wire",
        "technique": "grammar-based generation (rapid) with an independent parser/denotation as oracle: parser round trip through a hook, differential comparison of the PDR entries observed at the harness BESS server, and model-based PFD provisioning histories",
        "level_text": "Three units. Parser: IPFilterRule texts from the grammar round-trip (action, direction, protocol, both prefixes, both port ranges) against an independent parser; corruptions of the classes the statement names must be refused. PDR: one PDR per case with a generated description is established over PFCP; inside the envelope the installed entries must denote exactly the oriented filter (structure + boundary packets); malformed text => refused or UE-address-only, never a third filter. PFD: histories of accepted/rejected PFD Management Requests interleaved with PDRs naming application IDs; the observed filter must be a provisioned description of that application taken verbatim with one consistent keyword/direction association, unknown applications refused, rejected requests leave the table intact.",
        "level_note": WIRE_NOTE + " Port ranges wider than 100 and two true ranges are outside the PDR-level envelope (not installed by the plug-in); C17 covers their refusal.",
    },
    "C09": {
        "engine": "rapid-wire",
        "technique": "model-based property testing (rapid) with an exact rate/gate oracle, lower-bound burst oracle and an admissible-set oracle for the agent's choice of session QER derived from the observed tables",
        "level_text": "Sessions with 0-4 QERs (40-bit rates with boundaries, both gates, configured and unconfigured QFIs) and PDR QER lists drawn as permutations/sublists are established under three qci_qos_config variants and modified (add one/two QERs, update, remove, add PDR). After every accepted request every QER entry at the harness BESS server is checked: closed gate => drop gate, both rates zero => unmetered, else pir = MBR x 125, cir = max(GBR x 125, 1), cbs/pbs/ebs >= rate x duration and >= the configured minimum of the QFI. The session-wide QER is derived from the tables (QER without application-level entry): at most one, referenced by every PDR, session-level entries iff present and carrying its rates, and untouched (not rewritten) by modifications that do not update or remove it. UP4 unit: after every accepted establishment, Update QER (new rates/gates/QFI), Update FAR or deletion, for every forwarding terminations entry the meter cells on its path (application cell named by the entry, session cell named by its sessions entry) must limit at exactly the multiset of MBR x 125 of the PDR's QERs for that direction, with bursts >= rate x 10 ms; closed gate => drop action, QFI => traffic class.",
        "level_note": WIRE_NOTE + " UP4 meters/traffic classes are covered by the UP4 unit when enabled in checks_table.py.",
    },
    "C17": {
        "engine": "rapid-direct",
        "technique": "exhaustive enumeration (thorough: all 2^32 (low, high) x 2 strategies) and boundary/random sampling (quick) of the port-range expansion through a build-tag hook, with a set-semantics oracle",
        "level_text": "The single-range expansion is checked for every (low, high) and both strategies in the thorough tier (quick: all ranges with an end within 2 of a power of two or of 0/65535, all widths <= 102, 10^6 random): accepted => the rules form an ordered, gap-free block partition of exactly [low, high] (arbitrary masks are enumerated over 65536 ports), wildcard only for 0-65535 / 0-0, trivial ranges and the ternary strategy never refused. Pairs from boundary classes go through the Cartesian product: two true ranges must be refused, accepted pairs must denote exactly S x D.",
        "level_note": "Uses the add-only hook pfcpiface/verif_hooks.go (build tag verif). The wire-level effect of port ranges is observed in C03/C08.",
    },
    "C18": {
        "engine": "rapid-direct",
        "technique": "schema-driven generation of configuration documents (rapid) with a validity-predicate oracle, a round trip against the generating model, and a metamorphic relation under comment insertion",
        "level_text": "Configuration models with valid, boundary, invalid and absent values per field are rendered to JSON and loaded with LoadConfigFile: it must not panic; a returned configuration must satisfy the statement's predicate; valid models must round-trip field by field after defaults; re-rendering the same tokens with // and single-line /* */ comments between tokens must not change error-ness or the loaded configuration; adversarial documents (markers inside strings, multi-line blocks, truncation, bytes, wrong types) only get crash-freedom and the predicate. The shipped upf.jsonc samples must load.",
        "level_note": "The generator covers the fields of pfcpiface.Conf that the statement names plus the optional blocks; unknown keys are ignored by the loader and generated as such.",
    },
    "C19": {
        "engine": "rapid-wire",
        "technique": "property-based testing (rapid) of the real HTTP endpoint over raw TCP with the harness BESS and P4Runtime servers as observers of slice-meter commands, plus a metamorphic relation on absent bursts",
        "level_text": "Generated requests (PUT/POST with all units incl. absent/unknown and 64-bit rates/bursts around the 2^63 boundary, malformed and truncated bodies, other methods) are sent over raw TCP to the in-process agent: well-formed => exactly one 201 and sliceMeter uplink/downlink pir = converted/8 and pbs = posted burst whenever the rate is non-zero and fits 63 bits; malformed/unreadable => exactly one response, 4xx, single JSON body, zero sliceMeter commands; other methods => 405, zero commands. A direction that posts no burst is programmed as by the same document without any burst. UP4 (every fourth case, three slice id / default TC configurations): exactly one MeterEntry, for cell (slice << 2) + default TC of slice_tc_meter, carrying the larger converted rate and that direction's burst; zero Writes for malformed bodies and other methods.",
        "level_note": WIRE_NOTE + " UP4 slice/TC meter cell is covered once the P4Runtime server unit is enabled for C19 in checks_table.py.",
    },
}

TEXT.update({
    "C04": {
        "engine": "rapid-wire",
        "technique": "model-based stateful testing (rapid) against a harness P4Runtime server with specification write semantics; oracle = denotation of the model up to a bijection on agent-chosen identifiers",
        "level_text": "Histories of establishments (shared gNBs and application filters, F-TEID given or CHOOSE, QER shapes none/[app]/[app,session]), Update FAR (forward<->buffer<->drop, new TEID/peer), Update QER and deletions run on a fresh UP4 agent and switch per case under three slice/TC/QFI-map configurations. After every accepted request the switch state must be the image: exactly the two interfaces entries, one sessions entry per distinct key, terminations per (UE, application) with drop/forward/TEID/QFI/TC following FAR and QER, a bijection between distinct filters and applications entries (ids 1..254, priority ordered as precedence) and between distinct GTP peers and tunnel_peers entries (ids 2..254), counters exclusive, and configured meter cells only for live QERs. Crash points: the real cmd/pfcpiface binary is killed with SIGKILL (after the k-th response or with a request in flight) and restarted against the same switch holding its leftovers plus injected junk, with clear_state_on_restart on and off; before any request and after each request of the second incarnation the switch must hold exactly the two interfaces entries plus the image of the new sessions.",
        "level_note": WIRE_NOTE + " Envelope: every uplink PDR has a downlink PDR in its session, one FAR for all downlink PDRs of a session, precedence <= 65534.",
    },
    "C05": {
        "engine": "rapid-wire",
        "technique": "stateful property-based testing (rapid) over histories x endings with table-image, gauge and pool-occupancy (build-tag hook) oracles, plus black-box pool cycling",
        "level_text": "Fresh agent per case on BESS or UP4 with UE-IP allocation on a /29 or /30 pool: a history of accepted and rejected establishments/modifications (rejected after allocation, first-PDR rejection, all PDRs removed, half-way rejection) is followed by one of five endings (Session Deletion, Association Release, Session Report Response 'context not found', silence past read_timeout, unanswered heartbeats - optionally with a Session Establishment in flight at the instant of the heartbeat verdict against a slow datapath stand-in) and then pool-size+2 attach/detach cycles. After the ending and after the cycles: tables hold the image of the live sessions only, pfcp_sessions equals the number of live sessions, UE IP / F-TEID / UP4 counter, meter, tunnel-peer and application pools hold exactly what live sessions hold, ended sessions are unknown.",
        "level_note": WIRE_NOTE + " Pool occupancy is read through the add-only hook; the attach/detach cycles check the same black-box.",
    },
    "C07": {
        "engine": "rapid-wire",
        "technique": "property-based testing with adversarial injected random sources and cursor placement through build-tag hooks; model-based check of the F-TEID generator incl. concurrent allocation under -race",
        "level_text": "Generator unit: allocate/free sequences with the cursor placed near 2^32 (ids non-zero, never one that is held, IsAllocated consistent), concurrent allocators under the race detector. Wire unit: establishment histories where the association's random source is replaced by constant / zero / zeros-then-fresh / 'collide with live SEIDs for r draws' sources with r around the retry limit and the TEID cursor near the wrap: accepted sessions get a non-zero SEID different from all live ones or the request is rejected, chosen TEIDs are non-zero and unique, and the reported F-SEID/F-TEIDs are those in the harness BESS tables; modifications remove CHOOSE PDRs (accepted, or rejected because a later Remove IE names an unknown rule) and after every step the agent's set of allocated TEIDs (hook) must be exactly what live sessions hold.",
        "level_note": WIRE_NOTE + " The all-2^32-TEIDs-used branch is unreachable in test time.",
    },
    "C10": {
        "engine": "rapid-wire",
        "technique": "randomised schedule exploration (rapid-generated triggers with jitter around one instant) of the real agent under the Go race detector, with a delete-exactly-once oracle over the datapath command log",
        "level_text": "One fresh agent per case with 0-4 associations of 0-3 sessions; every association gets a trigger {none, Association Release (optionally twice), silence past the 1 s read timeout, unanswered heartbeats} aimed at one instant with 0-30 ms jitter, optionally with Stop() at that instant, and optionally with a modification, establishment or deletion in flight: sent a drawn lead before the instant at which another goroutine starts the teardown (heartbeat verdict computed from the kernel timestamp of the first unanswered heartbeat; Stop()), while the datapath stand-in serves every command 0/4/15 ms late. Oracle: no panic, race report or deadlock (process death is attributed by the driver), Stop() returns within 15 s, every session of an ended association is deleted from the datapath exactly once and is unknown afterwards, nothing of an ended association stays installed (also not the session of an establishment that was in flight), no delete is answered not-found, the same peer can associate afresh, other associations keep their sessions and answer.",
        "level_note": "The harness does not own the Go scheduler: coincidences are sampled, a window narrower than the wake-up jitter can be missed. A failure is reported with the generated case; schedule-dependent failures may need several replays.",
    },
    "C11": {
        "engine": "rapid-wire",
        "technique": "concurrent stream generation (rapid) under the Go race detector with per-peer sequential-model oracles and a final union-of-images oracle",
        "level_text": "2-8 scripted control-plane peers run own establish / Update FAR (+ Update PDR in every third) / delete streams at the same time against a fresh agent on BESS or UP4 (shared gNBs and filters), with generated pacing and 0-2 ms random datapath service delays. No race report; every peer sees exactly the responses of its own sequential model; the final tables equal the union of the per-peer images; after concurrent deletion of everything the tables are empty and all pool counters are back to start-up values.",
        "level_note": "Schedules are sampled, not enumerated. Trusts the Go race detector.",
    },
    "C12": {
        "engine": "rapid-wire",
        "technique": "fault enumeration over the position of the answered transmission plus generated loss/duplicate/wrong-sequence scripts, with kernel receive timestamps and one-sided timing assertions",
        "level_text": "Heartbeats: for N in 1..4 the scripted peer answers exactly the k-th transmission for every k = 1..N+1, or none, plus generated multi-round scripts with duplicated and wrong-sequence responses and with the peer's own Heartbeat Request sent while the agent's is outstanding (the agent's next heartbeat must be postponed by it): <= 1+N transmissions with identical bytes, spacing >= resp_timeout - 2 ms, no transmission later than one resp_timeout after the answer, association alive iff answered, sessions removed when unanswered. Peer heartbeats answered before and after association with one Recovery Time Stamp equal to the setup response's and postponing the agent's own heartbeat; association accepted iff a datapath transport connection is up; FTUP/UEIP/EMPU feature bits per configuration in accepted, rejected and agent-originated messages; agent-initiated association retransmission with the peer bound to :8805.",
        "level_note": "Only one-sided timing facts are asserted; an answer that the harness itself sent late makes the liveness outcome inconclusive and is tolerated (labelled). The UP4 10 s reconnect sleep is not crossed.",
    },
    "C13": {
        "engine": "rapid-wire",
        "technique": "property-based testing of the wire paths (BESS unixpacket notify socket / UP4 P4Runtime digests -> Session Report Request) and of the rate limiter with bracketed timestamps",
        "level_text": "Wire: fresh agent on BESS (enable_notify_bess, harness unixpacket listener, 8-byte F-SEID reports) or, every third case, on UP4 (digests carrying UE addresses injected on the harness switch's stream); sessions of kinds BUFF|NOCP, BUFF, FORW, DROP, no downlink PDR; generated bursts of reports over known, unknown and zero F-SEIDs / UE addresses; exactly one Session Report Request (DLDR, downlink PDR of the session, CP SEID in the header, fresh sequence number) per notifying session, none otherwise. Flood unit: 3000-6000 notifying sessions and one burst of first reports (more than the agent's report queue holds): every session notified exactly once. Unit: the notifier with a 60 ms interval and generated call times: first report forwarded, two forwarded notifications at least an interval apart, a report at least an interval after the last forwarded one is forwarded.",
        "level_note": "One association (the statement says so). The hard-coded 20 s interval is not crossed on the wire.",
    },
    "C14": {
        "engine": "rapid-wire",
        "technique": "stateful property-based testing with packet decoding (gopacket) of everything written to the end-marker socket (BESS) or sent as PacketOut (UP4) and a global event order between datapath writes and packets",
        "level_text": "Sessions with 1-3 downlink FARs; modifications with 1-3 Update FARs each (new tunnel, buffer, drop; SNDEM set, clear, absent; unknown FAR ids; flagged Create FAR), end markers enabled and disabled. Exactly one GTP-U End Marker (type 254, ports 2152) per flagged applied update, addressed to the tunnel the rule used before, sourced from the access address, after the farLookup add of that rule (BESS) / after the last Write of the modification (UP4, every third case, one downlink FAR per session); none otherwise.",
        "level_note": WIRE_NOTE + " A flagged update of a rule that had no tunnel before is not asserted. UP4 PacketOut is exercised by C01 (wedge) only.",
    },
    "C15": {
        "engine": "rapid-wire",
        "technique": "exhaustive fault enumeration over the failing Write position (harness P4Runtime server fault plan) plus random multi-fault plans, with an identifier-exclusivity oracle over the switch state",
        "level_text": "On a fresh UP4 agent whose switch declares small meter/counter arrays: two sessions sharing gNB and filter (in a third of the scenarios one PDR has a filter nothing else uses), then establishment / Update FAR modification / deletion with the k-th Write RPC failing for every k up to the fault-free count and each error code, optionally followed by deleting the sharing session, then further sessions. No counter cell, application/session meter cell, tunnel-peer id or application id is referenced by two live owners, none denotes another object than its owner asked for, no object is removed while a live session references it, no identifier referenced by an entry of a live session sits in its free pool (hook), no pool exceeds its start-up size, and an establishment or modification with a failed write is rejected.",
        "level_note": WIRE_NOTE + " ALREADY_EXISTS is tolerated by design and not injected. Leaks after failed requests belong to C05.",
    },
    "C16": {
        "engine": "rapid-wire",
        "technique": "property-based testing over the full numeric input domain with an always-on P4Info conformance validator inside the harness P4Runtime server; golden comparison and determinism check for the constants generator",
        "level_text": "Every Write the agent issues (start-up, sessions with precedence 0..65535, arbitrary addresses/TEIDs/ports/ranges/protocols, QFI 0-63, slice 0-15, TC 0-3, Update FAR, deletion, slice configuration over REST) is validated against the served P4Info exactly as the statement lists. The built generator regenerates the constants from the shipped P4Info twice (identical) and the gofmt-ed result equals internal/p4constants/p4constants.go; 300+ generated P4Info documents are fed twice each (determinism).",
        "level_note": "The validator checks the statement's conditions only (no canonical-bytes rule).",
    },
    "C20": {
        "engine": "hypothesis-c20",
        "technique": "Hypothesis RuleBasedStateMachine (model-based) over the Python route controller with a recording BESS stand-in; oracle = module graph vs kernel model",
        "level_text": "Kernel events RTM_NEWROUTE / RTM_DELROUTE / neighbour resolution over 2 managed + 1 unmanaged interface, 6 prefixes and 3 next hops per interface are delivered through the handlers the controller registers; after every step the graph rebuilt from the BESS stand-in must mirror the kernel model: route installed iff present and next hop resolved (all waiting routes), one gate and one Update module (right MAC, linked to Merge) per live next hop, module exists iff used, gates pairwise distinct.",
        "level_note": "pyroute2, pybess and scapy are stubs; the BESS stand-in refuses what bessd refuses (deleting missing routes/modules, connecting an occupied gate). time.sleep is patched out.",
    },
})

NA = {}
