"""Texts for MANIFEST.json, one entry per claimed property."""

TEXT = {
    "C02": {
        "engine": "rapid-wire",
        "technique": "stateful property-based testing (rapid) of the real agent over UDP with a per-request response-shape oracle and heartbeat probes",
        "level_text": "Generated histories over 1-3 associations and several sessions are sent to the real agent over UDP; after every request the harness reads everything that comes back before the answer to a following probe heartbeat and checks count, type, sequence number, header SEID, Node ID, UP F-SEID, Created PDR set and rejection shape against the reference model. Exploration, not proof: thousands of histories per run, shrunk to a JSON replay on failure.",
        "level_note": "Trusts go-pfcp for decoding responses, the harness BESS server for letting requests complete, and the probe argument (per-association handling is sequential).",
    },
}

NA = {}
