"""Texts for MANIFEST.json, one entry per claimed property."""

WIRE_NOTE = ("Trusts go-pfcp for decoding responses, the harness-owned BESS/P4Runtime servers (table semantics written from conf/up4.bess and the "
             "P4Runtime specification, not from code under test) and the probe argument (per-association handling is sequential, so everything read "
             "before the answer to a following probe heartbeat is the complete reaction to the injected datagram). Exploration never proves absence.")

TEXT = {
    "C01": {
        "engine": "rapid-wire",
        "technique": "grammar-based IE-tree mutation fuzzing (rapid) of every PFCP message type injected at drawn points of association/session histories, with liveness probe and follow-up scenario oracle; crash attribution by journal + delta debugging",
        "level_text": "Mutants (drop/duplicate/empty/truncate/retype/reorder/unknown IE/IPv6-only/CHOOSE flags/flow-description surgery/header surgery, byte-level corruption, garbage) of templates of all dispatched and undispatched message types are sent over UDP to the real agent in states none/associated/session/modified/zero-PDR/deleted/released, with UE-IP allocation on and off. Oracle: process alive, probe heartbeat answered, at most one datagram back per datagram, and a canonical valid scenario afterwards succeeds on the same and on another association. A process death is attributed to the case in flight, confirmed in a fresh process and delta-debugged.",
        "level_note": WIRE_NOTE,
    },
    "C02": {
        "engine": "rapid-wire",
        "technique": "stateful property-based testing (rapid) of the real agent over UDP with a per-request response-shape oracle and heartbeat probes",
        "level_text": "Generated histories over 1-3 associations and several sessions are sent to the real agent over UDP; after every request the harness reads everything that comes back before the answer to a following probe heartbeat and checks count, type, sequence number, header SEID, Node ID, UP F-SEID, Created PDR set and rejection shape against the reference model. Exploration: thousands of histories per run, shrunk to a JSON replay on failure.",
        "level_note": WIRE_NOTE,
    },
    "C03": {
        "engine": "rapid-wire",
        "technique": "model-based stateful testing (rapid): reference model of session rules with a denotation into BESS tables, compared with the harness BESS server's settled snapshot after every accepted request, plus differential packet classification on boundary samples",
        "level_text": "Histories of establish/modify (create, update, remove of PDR/FAR/QER)/delete/release over up to 6 live sessions and 3 associations run against the real agent and a harness BESS gRPC server with WildcardMatch/ExactMatch/Qos semantics. After every accepted request the snapshot must equal the denotation of the model: every entry attributable to a live rule, value/mask pairs of the eight match fields, port sets by set semantics, gate, FAR id, first application QER, priority order, one FAR entry with action/tunnel fields, two entries per QER in exactly one module, nothing else; boundary packets around every rule are classified by the datapath lookup and by the statement's match predicate. Requests for unknown sessions / without association must be rejected with zero commands.",
        "level_note": WIRE_NOTE + " Exact-image oracle only inside the supported IPv4 envelope (DESIGN.md section 5). Crash/restart points are covered by the restart unit when present in checks_table.py.",
    },
    "C06": {
        "engine": "rapid-direct",
        "technique": "model-based property testing of the exported IPPool (rapid), bounded-exhaustive enumeration on small pools, and linearizability checking of concurrent histories with porcupine under the race detector",
        "level_text": "Sequential: every alloc/lookup/release sequence is compared step by step with a set model (in range, not network/broadcast, exclusive, sticky, refusal only when full) and closed by a fill-until-refusal conservation check; all sequences of 8 operations up to length 6 (/30) and 5 (/29) are enumerated. Concurrent: 2-8 goroutines run generated programs under -race and the call/return history must be linearizable w.r.t. the pool specification.",
        "level_note": "Trusts porcupine's checker and the Go race detector; concurrent schedules are sampled by the Go scheduler, not enumerated.",
    },
    "C08": {
        "engine": "rapid-wire",
        "technique": "grammar-based generation (rapid) with an independent parser/denotation as oracle: parser round trip through a hook, differential comparison of the PDR entries observed at the harness BESS server, and model-based PFD provisioning histories",
        "level_text": "Three units. Parser: IPFilterRule texts from the grammar round-trip (action, direction, protocol, both prefixes, both port ranges) against an independent parser; corruptions of the classes the statement names must be refused. PDR: one PDR per case with a generated description is established over PFCP; inside the envelope the installed entries must denote exactly the oriented filter (structure + boundary packets); malformed text => refused or UE-address-only, never a third filter. PFD: histories of accepted/rejected PFD Management Requests interleaved with PDRs naming application IDs; the observed filter must be a provisioned description of that application taken verbatim with one consistent keyword/direction association, unknown applications refused, rejected requests leave the table intact.",
        "level_note": WIRE_NOTE + " Port ranges wider than 100 and two true ranges are outside the PDR-level envelope (not installed by the plug-in); C17 covers their refusal.",
    },
    "C09": {
        "engine": "rapid-wire",
        "technique": "model-based property testing (rapid) with an exact rate/gate oracle, lower-bound burst oracle and an admissible-set oracle for the agent's choice of session QER derived from the observed tables",
        "level_text": "Sessions with 0-4 QERs (40-bit rates with boundaries, both gates, configured and unconfigured QFIs) and PDR QER lists drawn as permutations/sublists are established under three qci_qos_config variants and modified (add one/two QERs, update, remove, add PDR). After every accepted request every QER entry at the harness BESS server is checked: closed gate => drop gate, both rates zero => unmetered, else pir = MBR x 125, cir = max(GBR x 125, 1), cbs/pbs/ebs >= rate x duration and >= the configured minimum of the QFI. The session-wide QER is derived from the tables (QER without application-level entry): at most one, referenced by every PDR, session-level entries iff present and carrying its rates, and untouched (not rewritten) by modifications that do not update or remove it.",
        "level_note": WIRE_NOTE + " UP4 meters/traffic classes are covered by the UP4 unit when enabled in checks_table.py.",
    },
    "C17": {
        "engine": "rapid-direct",
        "technique": "exhaustive enumeration (thorough: all 2^32 (low, high) x 2 strategies) and boundary/random sampling (quick) of the port-range expansion through a build-tag hook, with a set-semantics oracle",
        "level_text": "The single-range expansion is checked for every (low, high) and both strategies in the thorough tier (quick: all ranges with an end within 2 of a power of two or of 0/65535, all widths <= 102, 10^6 random): accepted => the rules form an ordered, gap-free block partition of exactly [low, high] (arbitrary masks are enumerated over 65536 ports), wildcard only for 0-65535 / 0-0, trivial ranges and the ternary strategy never refused. Pairs from boundary classes go through the Cartesian product: two true ranges must be refused, accepted pairs must denote exactly S x D.",
        "level_note": "Uses the add-only hook pfcpiface/verif_hooks.go (build tag verif). The wire-level effect of port ranges is observed in C03/C08.",
    },
    "C18": {
        "engine": "rapid-direct",
        "technique": "schema-driven generation of configuration documents (rapid) with a validity-predicate oracle, a round trip against the generating model, and a metamorphic relation under comment insertion",
        "level_text": "Configuration models with valid, boundary, invalid and absent values per field are rendered to JSON and loaded with LoadConfigFile: it must not panic; a returned configuration must satisfy the statement's predicate; valid models must round-trip field by field after defaults; re-rendering the same tokens with // and single-line /* */ comments between tokens must not change error-ness or the loaded configuration; adversarial documents (markers inside strings, multi-line blocks, truncation, bytes, wrong types) only get crash-freedom and the predicate. The shipped upf.jsonc samples must load.",
        "level_note": "The generator covers the fields of pfcpiface.Conf that the statement names plus the optional blocks; unknown keys are ignored by the loader and generated as such.",
    },
    "C19": {
        "engine": "rapid-wire",
        "technique": "property-based testing (rapid) of the real HTTP endpoint over raw TCP with the harness BESS server as observer of slice-meter commands",
        "level_text": "Generated requests (PUT/POST with all units incl. absent/unknown and 64-bit rates/bursts around the 2^63 boundary, malformed and truncated bodies, other methods) are sent over raw TCP to the in-process agent: well-formed => exactly one 201 and sliceMeter uplink/downlink pir = converted/8 and pbs = posted burst whenever the rate is non-zero and fits 63 bits; malformed/unreadable => exactly one response, 4xx, single JSON body, zero sliceMeter commands; other methods => 405, zero commands.",
        "level_note": WIRE_NOTE + " UP4 slice/TC meter cell is covered once the P4Runtime server unit is enabled for C19 in checks_table.py.",
    },
}

NA = {}
