#!/bin/sh
# MANIFEST.setup_cmd: warms the Go build cache offline from files on disk (harness test binaries,
# plain and -race, and the two upf commands some checks start as real processes). Every check
# rebuilds from /repo's working tree on its own; this only makes those rebuilds incremental.
set -e
cd "$(dirname "$0")"
export GOFLAGS=-mod=mod GOPROXY=off
unset GOSUMDB
mkdir -p .build
cp -n /repo/go.sum harness/go.sum 2>/dev/null || true
(cd harness && go test -c -tags verif -o ../.build/props.test ./props/) || \
  (cd harness && GOTOOLCHAIN=local go1.26.8 test -c -tags verif -o ../.build/props.test ./props/)
(cd harness && go test -c -race -tags verif -o ../.build/props-race.test ./props/) || true
(GOFLAGS= go build -C /repo -mod=readonly -o /verif/.build/pfcpiface ./cmd/pfcpiface) || true
(GOFLAGS= go build -C /repo -mod=readonly -o /verif/.build/p4info_code_gen ./cmd/p4info_code_gen) || true
rm -f .build/props.test .build/props-race.test .build/pfcpiface .build/p4info_code_gen
echo "setup ok"
