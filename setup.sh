#!/bin/sh
# MANIFEST.setup_cmd: pre-builds the harness test binaries offline from files on disk.
set -e
cd "$(dirname "$0")"
export GOFLAGS=-mod=mod GOPROXY=off
unset GOSUMDB
mkdir -p .build
cp -n /repo/go.sum harness/go.sum 2>/dev/null || true
(cd harness && go test -c -tags verif -o ../.build/props.test ./props/) || \
  (cd harness && GOTOOLCHAIN=local go1.26.8 test -c -tags verif -o ../.build/props.test ./props/)
echo "setup ok"
