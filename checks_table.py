"""Per-property units run by ./check. Case counts are totals over all shards."""

E = "exploration"
F = "fault_enumeration"


def go(test, q, t, **kw):
    d = {"test": test, "checks": {"quick": q, "thorough": t}}
    d.update(kw)
    return d


CHECKS = {
    "C01": {"level": E, "units": [go("TestC01", 8000, 400000)]},
    "C02": {"level": E, "units": [go("TestC02", 1600, 60000)]},
}
