"""Per-property units run by ./check. Case counts are totals over all shards."""

E = "exploration"
F = "fault_enumeration"


def go(test, q, t, **kw):
    d = {"test": test, "checks": {"quick": q, "thorough": t}}
    d.update(kw)
    return d


def fz(test, seconds, **kw):
    """Native, coverage-guided fuzzing target (thorough tier only; not a function of VERIF_SEED)."""
    d = {"kind": "fuzz", "test": test, "tiers": ["thorough"], "fuzztime": {"thorough": seconds}}
    d.update(kw)
    return d


CHECKS = {
    "C01": {"level": E, "units": [go("TestC01", 8000, 100000), fz("FuzzC01", 420, netns=True, minimize="1x")]},
    "C17": {"level": E, "units": [go("TestC17Single", 1000000, 16, netns=False), go("TestC17Pairs", 1000000, 8000000, netns=False), fz("FuzzC17", 90)]},
    "C06": {"level": E, "units": [go("TestC06Exhaustive", 16, 16, netns=False), go("TestC06Seq", 160000, 3000000, netns=False),
                                  go("TestC06Conc", 3000, 60000, race=True, netns=False, confirm=False)], "replay_race": False},
    "C18": {"level": E, "units": [go("TestC18Samples", 1, 1, netns=False, shards={"quick": 1, "thorough": 1}), go("TestC18", 400000, 6000000, netns=False), fz("FuzzC18", 240)]},
    "C19": {"level": E, "units": [go("TestC19", 48000, 3000000)]},
    "C03": {"level": E, "agent_binary": True, "units": [go("TestC03", 2000, 60000), go("TestC03Restart", 192, 6000)]},
    "C09": {"level": E, "units": [go("TestC09", 4000, 120000), go("TestC09UP4", 1600, 40000)]},
    "C08": {"level": E, "units": [go("TestC08Parser", 200000, 8000000, netns=False), go("TestC08PDR", 4000, 100000), go("TestC08PFD", 1500, 40000), fz("FuzzC08", 240)]},
    "C14": {"level": E, "units": [go("TestC14", 3200, 60000)]},
    "C13": {"level": E, "units": [go("TestC13", 1200, 20000), go("TestC13Unit", 640, 6000, netns=False), go("TestC13Flood", 16, 160, max_per_proc=4)]},
    "C07": {"level": E, "hazards_of": ["C03"], "units": [go("TestC07Gen", 50000, 2000000, netns=False), go("TestC07Conc", 600, 20000, race=True, netns=False, confirm=False), go("TestC07Wire", 2000, 30000)]},
    "C05": {"level": E, "units": [go("TestC05", 1600, 30000, confirm_tries=6)]},
    "C04": {"level": E, "agent_binary": True, "units": [go("TestC04", 4000, 120000), go("TestC04Restart", 192, 6000)]},
    "C16": {"level": E, "gen_binary": True, "units": [go("TestC16Constants", 1, 1, netns=False, shards={"quick": 1, "thorough": 1}), go("TestC16Gen", 960, 6000, netns=False), go("TestC16", 5600, 120000, fact=r"do(es)? not conform to the P4Info|violate the P4Info")]},
    "C15": {"level": F, "units": [go("TestC15Enum", 16, 16), go("TestC15Multi", 2400, 100000)]},
    "C20": {"level": E, "units": [{"kind": "py", "test": "c20", "argv": ["py/c20/test_c20.py"]}], "py_replay": ["py/c20/test_c20.py", "--replay"]},
    "C12": {"level": F, "units": [go("TestC12Enum", 16, 16), go("TestC12HB", 320, 5000, confirm_tries=10), go("TestC12Setup", 240, 6000), go("TestC12Init", 96, 3000)]},
    "C10": {"level": E, "units": [go("TestC10", 320, 8000, race=True, confirm=False)], "replay_race": True},
    "C11": {"level": E, "units": [go("TestC11", 320, 8000, race=True, confirm=False), go("TestC11Choose", 160, 3000, race=True, confirm=False)], "replay_race": True},
    "C02": {"level": E, "units": [go("TestC02", 4800, 100000), go("TestC02Conc", 320, 6000, race=True, confirm=False)], "replay_race": False},
}
