package model

import (
	"encoding/binary"
)

// Node is a generic PFCP IE tree node, parsed and serialised without go-pfcp so that
// arbitrary (also invalid) shapes can be produced.
type Node struct {
	Type     uint16
	Ent      uint16 // enterprise id when Type&0x8000 != 0
	Payload  []byte // leaf payload
	Children []*Node
	Grouped  bool
}

// grouped IE types the agent looks into (3GPP TS 29.244 table 8.1.2-1).
var groupedTypes = map[uint16]bool{
	1: true, 2: true, 3: true, 4: true, 7: true, 8: true, 9: true, 10: true, 11: true, 14: true,
	15: true, 16: true, 18: true, 58: true, 59: true, 83: true, 78: true, 79: true, 80: true, 99: true,
}

// ParseIEs parses a sequence of IEs; returns nil,false when the bytes are not a well-formed sequence.
func ParseIEs(b []byte, depth int) ([]*Node, bool) {
	var out []*Node
	for len(b) > 0 {
		if len(b) < 4 {
			return nil, false
		}
		t := binary.BigEndian.Uint16(b[0:2])
		l := int(binary.BigEndian.Uint16(b[2:4]))
		if len(b) < 4+l {
			return nil, false
		}
		n := &Node{Type: t}
		p := b[4 : 4+l]
		if t&0x8000 != 0 {
			if len(p) < 2 {
				return nil, false
			}
			n.Ent = binary.BigEndian.Uint16(p[0:2])
			p = p[2:]
		}
		if groupedTypes[t] && depth < 6 {
			if ch, ok := ParseIEs(p, depth+1); ok {
				n.Grouped = true
				n.Children = ch
			} else {
				n.Payload = append([]byte(nil), p...)
			}
		} else {
			n.Payload = append([]byte(nil), p...)
		}
		out = append(out, n)
		b = b[4+l:]
	}
	return out, true
}

// Bytes serialises a node.
func (n *Node) Bytes() []byte {
	var p []byte
	if n.Grouped {
		for _, c := range n.Children {
			p = append(p, c.Bytes()...)
		}
	} else {
		p = n.Payload
	}
	var out []byte
	hdr := make([]byte, 4)
	binary.BigEndian.PutUint16(hdr[0:2], n.Type)
	l := len(p)
	if n.Type&0x8000 != 0 {
		l += 2
	}
	binary.BigEndian.PutUint16(hdr[2:4], uint16(l))
	out = append(out, hdr...)
	if n.Type&0x8000 != 0 {
		e := make([]byte, 2)
		binary.BigEndian.PutUint16(e, n.Ent)
		out = append(out, e...)
	}
	return append(out, p...)
}

// Clone deep-copies a node.
func (n *Node) Clone() *Node {
	c := &Node{Type: n.Type, Ent: n.Ent, Grouped: n.Grouped, Payload: append([]byte(nil), n.Payload...)}
	for _, ch := range n.Children {
		c.Children = append(c.Children, ch.Clone())
	}
	return c
}

// Msg is a PFCP message as header fields plus an IE tree.
type Msg struct {
	Flags   uint8 // version<<5 | FO<<2? | MP<<1 | S
	Type    uint8
	SEID    uint64
	Seq     uint32
	Spare   uint8
	IEs     []*Node
	LenAdj  int // added to the computed length field (header surgery)
	Trailer []byte
}

// ParseMsg splits a well-formed datagram into header and IE tree.
func ParseMsg(b []byte) (*Msg, bool) {
	if len(b) < 8 {
		return nil, false
	}
	m := &Msg{Flags: b[0], Type: b[1]}
	off := 4
	if b[0]&1 != 0 {
		if len(b) < 16 {
			return nil, false
		}
		m.SEID = binary.BigEndian.Uint64(b[4:12])
		off = 12
	}
	m.Seq = uint32(b[off])<<16 | uint32(b[off+1])<<8 | uint32(b[off+2])
	m.Spare = b[off+3]
	ies, ok := ParseIEs(b[off+4:], 0)
	if !ok {
		return nil, false
	}
	m.IEs = ies
	return m, true
}

// Bytes serialises the message.
func (m *Msg) Bytes() []byte {
	var body []byte
	for _, n := range m.IEs {
		body = append(body, n.Bytes()...)
	}
	hl := 4
	if m.Flags&1 != 0 {
		hl = 12
	}
	out := make([]byte, 4, 16+len(body))
	out[0], out[1] = m.Flags, m.Type
	binary.BigEndian.PutUint16(out[2:4], uint16(hl+len(body)+m.LenAdj))
	if m.Flags&1 != 0 {
		s := make([]byte, 8)
		binary.BigEndian.PutUint64(s, m.SEID)
		out = append(out, s...)
	}
	out = append(out, byte(m.Seq>>16), byte(m.Seq>>8), byte(m.Seq), m.Spare)
	out = append(out, body...)
	return append(out, m.Trailer...)
}

// Paths enumerates all node paths (pre-order).
func Paths(ns []*Node) [][]int {
	var out [][]int
	var rec func(ns []*Node, pre []int)
	rec = func(ns []*Node, pre []int) {
		for i, n := range ns {
			p := append(append([]int(nil), pre...), i)
			out = append(out, p)
			if n.Grouped {
				rec(n.Children, p)
			}
		}
	}
	rec(ns, nil)
	return out
}

// At returns the sibling slice holder and index for a path.
func At(root *[]*Node, path []int) (*[]*Node, int) {
	cur := root
	for i := 0; i < len(path)-1; i++ {
		if path[i] >= len(*cur) {
			return nil, 0
		}
		cur = &(*cur)[path[i]].Children
	}
	if len(path) == 0 || path[len(path)-1] >= len(*cur) {
		return nil, 0
	}
	return cur, path[len(path)-1]
}
