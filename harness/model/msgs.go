package model

import (
	"net"
	"time"

	"github.com/wmnsk/go-pfcp/ie"
	"github.com/wmnsk/go-pfcp/message"
)

func srcIf(s string) uint8 {
	switch s {
	case "core":
		return ie.SrcInterfaceCore
	case "cp":
		return ie.SrcInterfaceCPFunction
	case "sgi":
		return ie.SrcInterfaceSGiLANN6LAN
	}
	return ie.SrcInterfaceAccess
}

// permute reorders ies as a pure function of seed (0 = the canonical order). IEs of type keep
// stay in their original relative order.
func permute(ies []*ie.IE, seed uint32, keep uint16) []*ie.IE {
	if seed == 0 || len(ies) < 2 {
		return ies
	}
	out := append([]*ie.IE(nil), ies...)
	x := uint64(seed)*6364136223846793005 + 1442695040888963407
	for i := len(out) - 1; i > 0; i-- {
		x = x*6364136223846793005 + 1442695040888963407
		j := int((x >> 33) % uint64(i+1))
		out[i], out[j] = out[j], out[i]
	}
	if keep != 0 {
		var kept []*ie.IE
		for _, e := range ies {
			if e.Type == keep {
				kept = append(kept, e)
			}
		}
		k := 0
		for i, e := range out {
			if e.Type == keep {
				out[i] = kept[k]
				k++
			}
		}
	}
	return out
}

// PDIIEs builds the PDI members of a PDR.
func PDIIEs(p PDR) []*ie.IE {
	ies := []*ie.IE{ie.NewSourceInterface(srcIf(p.Src))}
	if p.FTEID {
		if p.Choose {
			ies = append(ies, ie.NewFTEID(0x04|0x01, 0, nil, nil, 0))
		} else {
			ies = append(ies, ie.NewFTEID(0x01, p.TEID, net.ParseIP(p.N3).To4(), nil, 0))
		}
	}
	if p.HasUE {
		if p.UEAlloc {
			ies = append(ies, ie.NewUEIPAddress(0x10, "", "", 0, 0))
		} else {
			flags := uint8(0x02)
			if p.Src == "core" {
				flags |= 0x04 // S/D: destination
			}
			ies = append(ies, ie.NewUEIPAddress(flags, p.UEIP, "", 0, 0))
		}
	}
	if p.SDF != "" {
		ies = append(ies, ie.NewSDFFilter(p.SDF, "", "", "", 1))
	}
	if p.AppID != "" {
		ies = append(ies, ie.NewApplicationID(p.AppID))
	}
	return permute(ies, p.Perm, 0)
}

func pdrIEs(p PDR) []*ie.IE {
	ies := []*ie.IE{
		ie.NewPDRID(p.ID),
		ie.NewPrecedence(p.Prec),
		ie.NewPDI(PDIIEs(p)...),
	}
	if p.OHR {
		ies = append(ies, ie.NewOuterHeaderRemoval(0, 0))
	}
	ies = append(ies, ie.NewFARID(p.FAR))
	for _, q := range p.QERs {
		ies = append(ies, ie.NewQERID(q))
	}
	return permute(ies, p.Perm>>1, ie.QERID)
}

func CreatePDR(p PDR) *ie.IE { return ie.NewCreatePDR(pdrIEs(p)...) }
func UpdatePDR(p PDR) *ie.IE { return ie.NewUpdatePDR(pdrIEs(p)...) }

func dstIf(d uint8) uint8 {
	if d == IfCore {
		return ie.DstInterfaceCore
	}
	return ie.DstInterfaceAccess
}

func fwdIEs(f FAR) []*ie.IE {
	ies := []*ie.IE{ie.NewDestinationInterface(dstIf(f.DstIf))}
	if f.HasOHC {
		ies = append(ies, ie.NewOuterHeaderCreation(0x0100, f.TEID, f.Peer, "", 0, 0, 0))
	}
	return permute(ies, f.Perm, 0)
}

func CreateFAR(f FAR) *ie.IE {
	ies := []*ie.IE{ie.NewFARID(f.ID), ie.NewApplyAction(f.Action)}
	if f.HasFwd {
		fw := fwdIEs(f)
		if f.EndMarker {
			fw = append(fw, ie.NewPFCPSMReqFlags(0x02))
		}
		ies = append(ies, ie.NewForwardingParameters(permute(fw, f.Perm, 0)...))
	}
	return ie.NewCreateFAR(permute(ies, f.Perm>>1, 0)...)
}

func UpdateFAR(f FAR) *ie.IE {
	ies := []*ie.IE{ie.NewFARID(f.ID), ie.NewApplyAction(f.Action)}
	if f.HasFwd {
		fw := fwdIEs(f)
		if f.OmitDstIf {
			var kept []*ie.IE
			for _, e := range fw {
				if e.Type != ie.DestinationInterface {
					kept = append(kept, e)
				}
			}
			fw = kept
		}
		if f.HasSMReq || f.EndMarker || f.SMExtra != 0 {
			fl := f.SMExtra &^ 0x02
			if f.EndMarker {
				fl |= 0x02
			}
			fw = append(fw, ie.NewPFCPSMReqFlags(fl))
		}
		ies = append(ies, ie.NewUpdateForwardingParameters(permute(fw, f.Perm, 0)...))
	}
	return ie.NewUpdateFAR(permute(ies, f.Perm>>1, 0)...)
}

func qerIEs(q QER) []*ie.IE {
	ies := []*ie.IE{ie.NewQERID(q.ID), ie.NewQFI(q.QFI), ie.NewGateStatus(q.GateUL, q.GateDL)}
	if !q.NoMBR {
		ies = append(ies, ie.NewMBR(q.MBRUL, q.MBRDL))
	}
	if !q.NoGBR {
		ies = append(ies, ie.NewGBR(q.GBRUL, q.GBRDL))
	}
	return permute(ies, q.Perm, 0)
}

func CreateQER(q QER) *ie.IE { return ie.NewCreateQER(qerIEs(q)...) }
func UpdateQER(q QER) *ie.IE { return ie.NewUpdateQER(qerIEs(q)...) }

// PeerTS is the recovery time stamp every scripted peer sends.
var PeerTS = time.Unix(1700000000, 0)

// AssocSetup builds an Association Setup Request.
func AssocSetup(seq uint32, nodeID string) *message.AssociationSetupRequest {
	return AssocSetupTS(seq, nodeID, 0)
}

// AssocSetupTS is AssocSetup of a peer whose Recovery Time Stamp is offset seconds newer.
func AssocSetupTS(seq uint32, nodeID string, offset int) *message.AssociationSetupRequest {
	return message.NewAssociationSetupRequest(seq,
		ie.NewRecoveryTimeStamp(PeerTS.Add(time.Duration(offset)*time.Second)),
		NodeIDIE(nodeID),
	)
}

// NodeIDIE builds a Node ID IE from an IPv4 string or FQDN.
func NodeIDIE(id string) *ie.IE {
	if id == "" {
		// FQDN type with an empty name
		return ie.New(ie.NodeID, []byte{2, 0})
	}
	if ip := net.ParseIP(id); ip != nil && ip.To4() != nil {
		return ie.NewNodeID(id, "", "")
	}
	return ie.NewNodeID("", "", id)
}

func AssocRelease(seq uint32, nodeID string) *message.AssociationReleaseRequest {
	return message.NewAssociationReleaseRequest(seq, NodeIDIE(nodeID))
}

func Heartbeat(seq uint32) *message.HeartbeatRequest {
	return message.NewHeartbeatRequest(seq, ie.NewRecoveryTimeStamp(PeerTS), nil)
}

// PFDMgmt builds a PFD Management Request.
func PFDMgmt(seq uint32, pfds []PFD) *message.PFDManagementRequest {
	var ies []*ie.IE
	for _, p := range pfds {
		var ctx []*ie.IE
		for _, fd := range p.Flows {
			ctx = append(ctx, ie.NewPFDContents(fd, "", "", "", "", nil, nil, nil))
		}
		switch p.Bad {
		case "emptyfd":
			ctx = append(ctx, ie.NewPFDContents("", "", "", "", "", nil, nil, nil))
		}
		members := []*ie.IE{ie.NewApplicationID(p.App)}
		if p.Bad != "nocontents" {
			members = append(members, ie.NewPFDContext(ctx...))
		}
		ies = append(ies, ie.NewApplicationIDsPFDs(members...))
	}
	return message.NewPFDManagementRequest(seq, ies...)
}

// Establishment builds a Session Establishment Request.
func Establishment(seq uint32, nodeID string, cpSEID uint64, cpIP string, op Op) *message.SessionEstablishmentRequest {
	ies := []*ie.IE{NodeIDIE(nodeID), ie.NewFSEID(cpSEID, net.ParseIP(cpIP).To4(), nil)}
	for _, p := range op.PDRs {
		ies = append(ies, CreatePDR(p))
	}
	for _, f := range op.FARs {
		ies = append(ies, CreateFAR(f))
	}
	for _, q := range op.QERs {
		ies = append(ies, CreateQER(q))
	}
	return message.NewSessionEstablishmentRequest(0, 0, 0, seq, 0, ies...)
}

// Modification builds a Session Modification Request addressed to seid.
func Modification(seq uint32, seid uint64, cpIP string, op Op) *message.SessionModificationRequest {
	var ies []*ie.IE
	if op.NewCP {
		ies = append(ies, ie.NewFSEID(op.NewCPSEID, net.ParseIP(cpIP).To4(), nil))
	}
	for _, p := range op.PDRs {
		ies = append(ies, CreatePDR(p))
	}
	for _, f := range op.FARs {
		ies = append(ies, CreateFAR(f))
	}
	for _, q := range op.QERs {
		ies = append(ies, CreateQER(q))
	}
	for _, p := range op.UpdPDRs {
		ies = append(ies, UpdatePDR(p))
	}
	for _, f := range op.UpdFARs {
		ies = append(ies, UpdateFAR(f))
	}
	for _, q := range op.UpdQERs {
		ies = append(ies, UpdateQER(q))
	}
	for _, id := range op.RemPDRs {
		ies = append(ies, ie.NewRemovePDR(ie.NewPDRID(id)))
	}
	for _, id := range op.RemFARs {
		ies = append(ies, ie.NewRemoveFAR(ie.NewFARID(id)))
	}
	for _, id := range op.RemQERs {
		ies = append(ies, ie.NewRemoveQER(ie.NewQERID(id)))
	}
	return message.NewSessionModificationRequest(0, 0, seid, seq, 0, ies...)
}

func Deletion(seq uint32, seid uint64) *message.SessionDeletionRequest {
	return message.NewSessionDeletionRequest(0, 0, seid, seq, 0)
}

// Marshal serialises a message.
func Marshal(m message.Message) []byte {
	b := make([]byte, m.MarshalLen())
	if err := m.MarshalTo(b); err != nil {
		return nil
	}
	return b
}
