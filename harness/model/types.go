// Package model holds the abstract (JSON-serialisable) PFCP rules, operations and
// cases the generators draw, the builders that turn them into PFCP messages, and the
// reference model of session state written from the PFCP meaning of the rules.
package model

import (
	"encoding/binary"
	"net"
)

// PDR is an abstract packet detection rule as the control plane would state it.
type PDR struct {
	ID      uint16   `json:"id"`
	Prec    uint32   `json:"prec"`
	Src     string   `json:"src"` // "access" | "core"
	FTEID   bool     `json:"fteid,omitempty"`
	Choose  bool     `json:"choose,omitempty"` // F-TEID with CH flag
	TEID    uint32   `json:"teid,omitempty"`
	N3      string   `json:"n3,omitempty"` // IPv4 address in the F-TEID
	UEIP    string   `json:"ueip,omitempty"`
	UEAlloc bool     `json:"uealloc,omitempty"` // UE IP Address IE asking the UP to allocate
	HasUE   bool     `json:"hasue,omitempty"`
	SDF     string   `json:"sdf,omitempty"`
	AppID   string   `json:"app,omitempty"`
	OHR     bool     `json:"ohr,omitempty"` // Outer Header Removal GTP-U/UDP/IPv4
	FAR     uint32   `json:"far"`
	QERs    []uint32 `json:"qers,omitempty"`
	// Perm != 0 permutes the order of the member IEs of the PDR and of its PDI on the wire
	// (IE order inside a grouped IE carries no meaning; QER IDs keep their relative order).
	Perm uint32 `json:"perm,omitempty"`
}

// Apply-action bits (3GPP TS 29.244 8.2.26).
const (
	ActDROP = 0x01
	ActFORW = 0x02
	ActBUFF = 0x04
	ActNOCP = 0x08
)

// Interface values.
const (
	IfAccess = 0
	IfCore   = 1
)

// FAR is an abstract forwarding action rule.
type FAR struct {
	ID     uint32 `json:"id"`
	Action uint8  `json:"action"`
	// Forwarding parameters (Create) / Update Forwarding Parameters (Update)
	HasFwd    bool   `json:"fwd,omitempty"`
	DstIf     uint8  `json:"dstif,omitempty"`
	HasOHC    bool   `json:"ohc,omitempty"`
	TEID      uint32 `json:"teid,omitempty"`
	Peer      string `json:"peer,omitempty"`
	EndMarker bool   `json:"sndem,omitempty"` // PFCPSMReq-Flags SNDEM inside Update Forwarding Parameters
	HasSMReq  bool   `json:"smreq,omitempty"` // PFCPSMReq-Flags IE present (flag may be clear)
	Perm      uint32 `json:"perm,omitempty"`  // see PDR.Perm
	// SMExtra: further bits of the PFCPSMReq-Flags octet (DROBU 0x01, QAURR 0x04) sent along with or without
	// SNDEM; they mean nothing for end markers
	SMExtra uint8 `json:"smextra,omitempty"`
	// OmitDstIf (Update FAR only): the Destination Interface IE is left out of Update Forwarding Parameters -
	// TS 29.244 sends it "if changed" - so the rule keeps the destination interface it had
	OmitDstIf bool `json:"omitdstif,omitempty"`
}

// QER is an abstract QoS enforcement rule (rates in kbps as on the wire).
type QER struct {
	ID     uint32 `json:"id"`
	QFI    uint8  `json:"qfi"`
	GateUL uint8  `json:"gul"` // 0 open, 1 closed
	GateDL uint8  `json:"gdl"`
	MBRUL  uint64 `json:"mul"`
	MBRDL  uint64 `json:"mdl"`
	GBRUL  uint64 `json:"gbul"`
	GBRDL  uint64 `json:"gbdl"`
	NoMBR  bool   `json:"nombr,omitempty"`
	NoGBR  bool   `json:"nogbr,omitempty"`
	Perm   uint32 `json:"perm,omitempty"` // see PDR.Perm
}

// PFD is one application's provisioned flow descriptions.
type PFD struct {
	App   string   `json:"app"`
	Flows []string `json:"flows"`
	// Bad makes the PFD contents malformed on the wire (rejected request).
	Bad string `json:"bad,omitempty"` // "" | "emptyfd" | "nocontents"
}

// Op is one step of a case.
type Op struct {
	// TSOffset (assoc): seconds added to the peer's Recovery Time Stamp - a peer that restarted
	TSOffset int    `json:"tsoffset,omitempty"`
	Kind     string `json:"k"`
	Peer     int    `json:"peer,omitempty"`
	Sess     int    `json:"sess,omitempty"`
	Seq      uint32 `json:"seq,omitempty"`

	// est
	CPSEID uint64 `json:"cpseid,omitempty"`
	NodeID string `json:"nodeid,omitempty"` // overrides the peer's node ID
	PDRs   []PDR  `json:"pdrs,omitempty"`
	FARs   []FAR  `json:"fars,omitempty"`
	QERs   []QER  `json:"qers,omitempty"`

	// mod
	UpdPDRs   []PDR    `json:"updpdrs,omitempty"`
	UpdFARs   []FAR    `json:"updfars,omitempty"`
	UpdQERs   []QER    `json:"updqers,omitempty"`
	RemPDRs   []uint16 `json:"rempdrs,omitempty"`
	RemFARs   []uint32 `json:"remfars,omitempty"`
	RemQERs   []uint32 `json:"remqers,omitempty"`
	NewCP     bool     `json:"newcp,omitempty"` // mod carries a CP F-SEID
	NewCPSEID uint64   `json:"newcpseid,omitempty"`

	// addressing of mod/del: "" = the session's UP SEID, "unknown" = a SEID nobody has,
	// "foreign" = sent by peer Peer but addressed with the UP SEID of session Sess (another peer's)
	Addr string `json:"addr,omitempty"`

	PFDs []PFD `json:"pfds,omitempty"`

	Raw string `json:"raw,omitempty"` // hex datagram
	// PatchSEID: at run time the header SEID of Raw is replaced by the UP SEID learnt for session Sess
	PatchSEID bool           `json:"patchseid,omitempty"`
	Ms        int            `json:"ms,omitempty"`
	N         int            `json:"n,omitempty"`
	Note      string         `json:"note,omitempty"`
	Extra     map[string]any `json:"x,omitempty"`
}

// Case is a whole generated test case.
type Case struct {
	Conf map[string]any `json:"conf,omitempty"`
	Ops  []Op           `json:"ops"`
}

// IP2U converts an IPv4 string to its integer value (0 when not IPv4).
func IP2U(s string) uint32 {
	ip := net.ParseIP(s).To4()
	if ip == nil {
		return 0
	}
	return binary.BigEndian.Uint32(ip)
}

// U2IP converts back.
func U2IP(u uint32) string {
	b := make(net.IP, 4)
	binary.BigEndian.PutUint32(b, u)
	return b.String()
}
