package model

import (
	"fmt"
	"net"
	"strconv"
	"strings"
)

// Flow is the independent denotation of an IPFilterRule text (3GPP TS 29.212 5.4.2 as far as
// the statement of C08 uses it): two endpoints, a protocol and port ranges, exactly as written.
type Flow struct {
	Action, Dir string
	ProtoAny    bool
	Proto       uint8
	From, To    Endpoint
}

// Endpoint is one side of a flow description.
type Endpoint struct {
	Assigned bool
	Any      bool
	Net      uint32 // network address (masked)
	Len      int    // prefix length
	HasPort  bool
	Lo, Hi   uint16
}

func parseEP(toks []string) (Endpoint, int, error) {
	var e Endpoint
	if len(toks) == 0 {
		return e, 0, fmt.Errorf("missing address")
	}
	switch toks[0] {
	case "any":
		e.Any = true
	case "assigned":
		e.Assigned = true
	default:
		s := toks[0]
		if !strings.Contains(s, "/") {
			s += "/32"
		}
		_, n, err := net.ParseCIDR(s)
		if err != nil || n.IP.To4() == nil {
			return e, 0, fmt.Errorf("bad address %q", toks[0])
		}
		ones, _ := n.Mask.Size()
		e.Len = ones
		e.Net = IP2U(n.IP.String())
	}
	used := 1
	if len(toks) > 1 && toks[1] != "to" && toks[1] != "from" {
		p := strings.Split(toks[1], "-")
		if len(p) > 2 {
			return e, 0, fmt.Errorf("bad port %q", toks[1])
		}
		lo, err := strconv.ParseUint(p[0], 10, 16)
		if err != nil {
			return e, 0, fmt.Errorf("bad port %q", toks[1])
		}
		hi := lo
		if len(p) == 2 {
			hi, err = strconv.ParseUint(p[1], 10, 16)
			if err != nil {
				return e, 0, fmt.Errorf("bad port %q", toks[1])
			}
		}
		if lo > hi {
			return e, 0, fmt.Errorf("inverted port range %q", toks[1])
		}
		e.HasPort, e.Lo, e.Hi = true, uint16(lo), uint16(hi)
		used = 2
	}
	return e, used, nil
}

// ParseFlow parses "action dir proto from EP to EP" strictly (the supported grammar).
func ParseFlow(text string) (*Flow, error) {
	toks := strings.Fields(text)
	if len(toks) < 7 {
		return nil, fmt.Errorf("too few tokens")
	}
	f := &Flow{Action: toks[0], Dir: toks[1]}
	if f.Action != "permit" && f.Action != "deny" {
		return nil, fmt.Errorf("unknown action")
	}
	if f.Dir != "in" && f.Dir != "out" {
		return nil, fmt.Errorf("unknown direction")
	}
	switch toks[2] {
	case "ip":
		f.ProtoAny = true
	case "tcp":
		f.Proto = 6
	case "udp":
		f.Proto = 17
	default:
		n, err := strconv.ParseUint(toks[2], 10, 8)
		if err != nil {
			return nil, fmt.Errorf("unknown protocol")
		}
		f.Proto = uint8(n)
	}
	if toks[3] != "from" {
		return nil, fmt.Errorf("expected from")
	}
	ep, used, err := parseEP(toks[4:])
	if err != nil {
		return nil, err
	}
	f.From = ep
	rest := toks[4+used:]
	if len(rest) == 0 || rest[0] != "to" {
		return nil, fmt.Errorf("expected to")
	}
	ep, used, err = parseEP(rest[1:])
	if err != nil {
		return nil, err
	}
	f.To = ep
	if len(rest[1+used:]) != 0 {
		return nil, fmt.Errorf("trailing tokens")
	}
	return f, nil
}

// PktFilter is what a PDR's filter must match, in packet terms.
type PktFilter struct {
	SrcNet, DstNet uint32
	SrcLen, DstLen int
	SrcLo, SrcHi   uint16 // 0-65535 when unconstrained
	DstLo, DstHi   uint16
	ProtoAny       bool
	Proto          uint8
}

func epNet(e Endpoint, ue uint32) (uint32, int) {
	switch {
	case e.Any:
		return 0, 0
	case e.Assigned:
		if ue == 0 {
			return 0, 0
		}
		return ue, 32
	}
	return e.Net, e.Len
}

// Orient turns a parsed inline flow description into the packet filter of a PDR with the given
// source interface. The description is written towards the UE (from remote to UE); for a PDR on
// the access side both endpoints swap. A port specification (at most one is inside the
// supported envelope) constrains the remote side. ok=false when the text is outside the exact
// envelope (two port specifications).
func (f *Flow) Orient(src string, ue uint32) (PktFilter, bool) {
	pf := PktFilter{SrcHi: 65535, DstHi: 65535, ProtoAny: f.ProtoAny, Proto: f.Proto}
	fromNet, fromLen := epNet(f.From, ue)
	toNet, toLen := epNet(f.To, ue)
	if f.From.HasPort && f.To.HasPort {
		return pf, false
	}
	var lo, hi uint16 = 0, 65535
	if f.From.HasPort {
		lo, hi = f.From.Lo, f.From.Hi
	}
	if f.To.HasPort {
		lo, hi = f.To.Lo, f.To.Hi
	}
	if src == "core" {
		pf.SrcNet, pf.SrcLen, pf.DstNet, pf.DstLen = fromNet, fromLen, toNet, toLen
		pf.SrcLo, pf.SrcHi = lo, hi
	} else {
		pf.SrcNet, pf.SrcLen, pf.DstNet, pf.DstLen = toNet, toLen, fromNet, fromLen
		pf.DstLo, pf.DstHi = lo, hi
	}
	return pf, true
}

// Verbatim is the packet filter for a PFD-provisioned description: source to packet source,
// destination to packet destination, ports as written.
func (f *Flow) Verbatim(ue uint32) PktFilter {
	pf := PktFilter{SrcHi: 65535, DstHi: 65535, ProtoAny: f.ProtoAny, Proto: f.Proto}
	pf.SrcNet, pf.SrcLen = epNet(f.From, ue)
	pf.DstNet, pf.DstLen = epNet(f.To, ue)
	if f.From.HasPort {
		pf.SrcLo, pf.SrcHi = f.From.Lo, f.From.Hi
	}
	if f.To.HasPort {
		pf.DstLo, pf.DstHi = f.To.Lo, f.To.Hi
	}
	return pf
}

// MaskOf returns the netmask of a prefix length.
func MaskOf(l int) uint32 {
	if l <= 0 {
		return 0
	}
	return ^uint32(0) << uint(32-l)
}

// Pkt is an abstract packet as the PDR lookup sees it.
type Pkt struct {
	Iface  uint8 // 1 access, 2 core
	TunDst uint32
	TEID   uint32
	Src    uint32
	Dst    uint32
	SPort  uint16
	DPort  uint16
	Proto  uint8
}

// Matches reports whether the filter admits the packet's inner header.
func (pf PktFilter) Matches(p Pkt) bool {
	if p.Src&MaskOf(pf.SrcLen) != pf.SrcNet&MaskOf(pf.SrcLen) {
		return false
	}
	if p.Dst&MaskOf(pf.DstLen) != pf.DstNet&MaskOf(pf.DstLen) {
		return false
	}
	if p.SPort < pf.SrcLo || p.SPort > pf.SrcHi || p.DPort < pf.DstLo || p.DPort > pf.DstHi {
		return false
	}
	if !pf.ProtoAny && p.Proto != pf.Proto {
		return false
	}
	return true
}
