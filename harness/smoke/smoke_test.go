package smoke

import (
	_ "github.com/anishathalye/porcupine"
	"github.com/omec-project/upf-epc/pfcpiface"
	"pgregory.net/rapid"
	"testing"
)

func TestSmoke(t *testing.T) {
	rapid.Check(t, func(t *rapid.T) { _ = rapid.Int().Draw(t, "x"); _ = pfcpiface.PFCPPort })
}
