package props

import (
	"fmt"
	"os"
	"strings"
	"testing"

	"github.com/omec-project/upf-epc/pfcpiface"
	"pgregory.net/rapid"

	"verif/harness/model"
	"verif/harness/rig"
	"verif/harness/sim"
)

// ---------- C03: BESS tables are exactly the image of the live sessions' rules ----------

var excludedHazards = func() map[string]bool {
	m := map[string]bool{}
	for _, h := range strings.Split(os.Getenv("VERIF_EXCLUDE"), ",") {
		if h != "" {
			m[h] = true
		}
	}
	return m
}()

func excluded(h string) bool { return excludedHazards[h] }

// genSessModel is the generator's prediction of one session's rules.
type genSessModel struct {
	peer  int
	live  bool
	ctx   sessCtx
	pdrs  []model.PDR
	fars  []model.FAR
	qers  []model.QER
	nextP uint16
	nextF uint32
	nextQ uint32
}

type histGen struct {
	nPeers int
	assoc  []bool
	sess   []*genSessModel
	knobs  ruleKnobs
}

func (g *histGen) liveIdx() []int {
	var out []int
	for i, s := range g.sess {
		if s.live && g.assoc[s.peer] {
			out = append(out, i)
		}
	}
	return out
}

func (g *histGen) est(t *rapid.T, peer int, seq uint32) model.Op {
	idx := len(g.sess)
	c := mkSessCtx(t, idx, peer)
	op := model.Op{Kind: "est", Peer: peer, Seq: seq, Sess: idx, CPSEID: uint64(1000 + idx)}
	op.PDRs, op.FARs, op.QERs = genRules(t, g.knobs, c)
	s := &genSessModel{peer: peer, live: g.assoc[peer], ctx: c, pdrs: op.PDRs, fars: op.FARs, qers: op.QERs, nextP: 40, nextF: 40, nextQ: 40}
	g.sess = append(g.sess, s)
	return op
}

// mod draws a modification inside the envelope and applies it to the generator's model.
func (g *histGen) mod(t *rapid.T, si int, seq uint32, ev *Ev) (model.Op, bool) {
	s := g.sess[si]
	op := model.Op{Kind: "mod", Peer: s.peer, Seq: seq, Sess: si}
	kinds := []string{"updfar", "updfar", "updqer", "addpair", "rempdr", "remfar", "remqer", "updpdr-keep", "updpdr-match", "addqer", "mixed"}
	kind := rapid.SampledFrom(kinds).Draw(t, "modkind")
	pickPDR := func() (int, bool) {
		if len(s.pdrs) == 0 {
			return 0, false
		}
		return rapid.IntRange(0, len(s.pdrs)-1).Draw(t, "pdri"), true
	}
	switch kind {
	case "updfar":
		var dl []int
		for i, f := range s.fars {
			if f.ID%2 == 0 {
				dl = append(dl, i)
			}
		}
		if len(dl) == 0 {
			return op, false
		}
		if rapid.IntRange(0, 4).Draw(t, "ulfar") == 0 {
			// the uplink FAR (towards the core) changes its action
			var ul []int
			for i, f := range s.fars {
				if f.ID%2 == 1 {
					ul = append(ul, i)
				}
			}
			if len(ul) > 0 {
				i := ul[rapid.IntRange(0, len(ul)-1).Draw(t, "ulfari")]
				nf := model.FAR{ID: s.fars[i].ID, Action: rapid.SampledFrom([]uint8{model.ActFORW, model.ActDROP}).Draw(t, "ulaction"), HasFwd: true, DstIf: model.IfCore}
				op.UpdFARs = []model.FAR{nf}
				s.fars[i] = nf
				return op, true
			}
		}
		i := dl[rapid.IntRange(0, len(dl)-1).Draw(t, "fari")]
		nf := genDLFAR(t, g.knobs, s.ctx, s.fars[i].ID)
		nf.HasFwd = true // Update FAR must carry Update Forwarding Parameters
		if nf.Action&model.ActFORW != 0 && rapid.Bool().Draw(t, "newpeer") {
			nf.Peer = fmt.Sprintf("198.18.%d.%d", 7+rapid.IntRange(0, 1).Draw(t, "pn"), rapid.IntRange(2, 5).Draw(t, "ph"))
		}
		op.UpdFARs = []model.FAR{nf}
		s.fars[i] = nf
		if rapid.IntRange(0, 2).Draw(t, "twofars") == 0 {
			// a second Update FAR in the same message: another rule of the session, which states fewer fields than
			// the first one (an uplink rule has no Outer Header Creation) - each Update FAR stands for itself
			var others []int
			for j := range s.fars {
				if j != i {
					others = append(others, j)
				}
			}
			if len(others) > 0 {
				j := others[rapid.IntRange(0, len(others)-1).Draw(t, "far2i")]
				var nf2 model.FAR
				if s.fars[j].ID%2 == 1 {
					nf2 = model.FAR{ID: s.fars[j].ID, Action: rapid.SampledFrom([]uint8{model.ActFORW, model.ActDROP}).Draw(t, "ulaction2"), HasFwd: true, DstIf: model.IfCore}
				} else {
					nf2 = model.FAR{ID: s.fars[j].ID, Action: rapid.SampledFrom([]uint8{model.ActDROP, model.ActBUFF | model.ActNOCP}).Draw(t, "dlaction2"), HasFwd: true, DstIf: model.IfAccess}
				}
				s.fars[j] = nf2
				if rapid.Bool().Draw(t, "far2first") {
					op.UpdFARs = []model.FAR{nf2, nf}
				} else {
					op.UpdFARs = []model.FAR{nf, nf2}
				}
				ev.Label("mod/two-update-fars")
			}
		}
	case "updqer":
		if len(s.qers) == 0 {
			return op, false
		}
		i := rapid.IntRange(0, len(s.qers)-1).Draw(t, "qeri")
		if s.qers[i].ID == 10 && excluded("sessQERUpdate") {
			ev.Exclude("sessQERUpdate")
			return op, false
		}
		nq := genQER(t, s.qers[i].ID, g.knobs.gbr)
		if s.qers[i].ID == 10 {
			nq.GBRUL, nq.GBRDL = 0, 0
		}
		op.UpdQERs = []model.QER{nq}
		s.qers[i] = nq
	case "addqer":
		if !g.knobs.qers {
			return op, false
		}
		if excluded("modCreatesQER") {
			ev.Exclude("modCreatesQER")
			return op, false
		}
		nq := genQER(t, s.nextQ, g.knobs.gbr)
		s.nextQ++
		op.QERs = []model.QER{nq}
		s.qers = append(s.qers, nq)
	case "addpair":
		if len(s.pdrs) >= 8 {
			return op, false
		}
		sdf := genSDF(t, g.knobs.ranges)
		for _, p := range s.pdrs {
			if sdfCollide(p.SDF, sdf) {
				return op, false
			}
		}
		prec := genPrec32(t)
		var ql []uint32
		if len(s.pdrs) > 0 {
			ql = append(ql, s.pdrs[0].QERs...)
		}
		up := model.PDR{ID: s.nextP, Prec: prec, Src: "access", FTEID: true, TEID: s.ctx.teidUL, N3: g.knobs.accessN3, OHR: true, FAR: s.nextF, QERs: ql, SDF: sdf}
		dn := model.PDR{ID: s.nextP + 1, Prec: prec, Src: "core", HasUE: true, UEIP: s.ctx.ue, FAR: s.nextF + 1, QERs: ql, SDF: sdf}
		// a session whose UE address was allocated by the UP refers to it by value afterwards: not knowable open-loop
		for _, p := range s.pdrs {
			if p.UEAlloc {
				return op, false
			}
		}
		f1 := model.FAR{ID: s.nextF, Action: model.ActFORW, HasFwd: true, DstIf: model.IfCore}
		f2 := genDLFAR(t, g.knobs, s.ctx, s.nextF+1)
		s.nextP += 2
		s.nextF += 2
		op.PDRs, op.FARs = []model.PDR{up, dn}, []model.FAR{f1, f2}
		s.pdrs = append(s.pdrs, up, dn)
		s.fars = append(s.fars, f1, f2)
	case "rempdr":
		i, ok := pickPDR()
		if !ok {
			return op, false
		}
		op.RemPDRs = []uint16{s.pdrs[i].ID}
		s.pdrs = append(append([]model.PDR{}, s.pdrs[:i]...), s.pdrs[i+1:]...)
	case "remfar":
		if len(s.fars) == 0 {
			return op, false
		}
		i := rapid.IntRange(0, len(s.fars)-1).Draw(t, "fari")
		op.RemFARs = []uint32{s.fars[i].ID}
		s.fars = append(append([]model.FAR{}, s.fars[:i]...), s.fars[i+1:]...)
	case "remqer":
		if len(s.qers) == 0 {
			return op, false
		}
		i := rapid.IntRange(0, len(s.qers)-1).Draw(t, "qeri")
		// a QER still named by a PDR stays referenced; remove only unreferenced ones or together with nothing
		op.RemQERs = []uint32{s.qers[i].ID}
		id := s.qers[i].ID
		s.qers = append(append([]model.QER{}, s.qers[:i]...), s.qers[i+1:]...)
		for j := range s.pdrs {
			var nl []uint32
			for _, q := range s.pdrs[j].QERs {
				if q != id {
					nl = append(nl, q)
				}
			}
			if len(nl) != len(s.pdrs[j].QERs) {
				// the CP updates the PDRs that named the QER in the same message
				np := s.pdrs[j]
				np.QERs = nl
				if np.UEAlloc || np.Choose {
					return op, false
				}
				op.UpdPDRs = append(op.UpdPDRs, np)
				s.pdrs[j] = np
			}
		}
	case "updpdr-keep":
		i, ok := pickPDR()
		if !ok || s.pdrs[i].UEAlloc || s.pdrs[i].Choose {
			return op, false
		}
		np := s.pdrs[i]
		np.Prec = uint32(rapid.IntRange(1, 255).Draw(t, "nprec"))
		op.UpdPDRs = []model.PDR{np}
		s.pdrs[i] = np
	case "updpdr-match":
		if excluded("updatePDRChangesMatch") {
			ev.Exclude("updatePDRChangesMatch")
			return op, false
		}
		i, ok := pickPDR()
		if !ok || s.pdrs[i].UEAlloc || s.pdrs[i].Choose {
			return op, false
		}
		np := s.pdrs[i]
		np.SDF = genSDF(t, g.knobs.ranges)
		for _, p := range s.pdrs {
			if sdfCollide(p.SDF, np.SDF) && p.Src == np.Src {
				return op, false
			}
		}
		op.UpdPDRs = []model.PDR{np}
		s.pdrs[i] = np
	case "mixed":
		// an update of a FAR and the removal of a PDR in one message
		i, ok := pickPDR()
		if !ok || len(s.fars) == 0 {
			return op, false
		}
		op.RemPDRs = []uint16{s.pdrs[i].ID}
		s.pdrs = append(append([]model.PDR{}, s.pdrs[:i]...), s.pdrs[i+1:]...)
		fi := rapid.IntRange(0, len(s.fars)-1).Draw(t, "fari")
		nf := s.fars[fi]
		nf.Action, nf.HasFwd, nf.HasOHC, nf.TEID, nf.Peer = model.ActDROP, true, false, 0, ""
		op.UpdFARs = []model.FAR{nf}
		s.fars[fi] = nf
	}
	op.Note = kind
	return op, true
}

func genC03(ev *Ev) func(t *rapid.T) model.Case {
	return func(t *rapid.T) model.Case {
		g := &histGen{nPeers: rapid.IntRange(1, 3).Draw(t, "peers")}
		g.assoc = make([]bool, g.nPeers+1)
		g.knobs = ruleKnobs{maxPairs: 2, choose: true, ueAlloc: true, sdf: true, qers: true, buffer: true, ranges: true, gbr: true, accessN3: accessIP(), prec32: true,
			sessQER: !excluded("sessQER")}
		var ops []model.Op
		for p := 0; p < g.nPeers; p++ {
			ops = append(ops, opAssoc(p, uint32(100+p)))
			g.assoc[p] = true
		}
		n := rapid.IntRange(1, scale(25, 40)).Draw(t, "nops")
		seq := uint32(1000)
		for i := 0; i < n; i++ {
			seq++
			kind := rapid.SampledFrom([]string{"est", "est", "mod", "mod", "mod", "mod", "del", "unknown", "foreign", "noassoc", "wrongnode", "release"}).Draw(t, "kind")
			liv := g.liveIdx()
			switch kind {
			case "est":
				if len(liv) >= 6 {
					continue
				}
				var peers []int
				for p := 0; p < g.nPeers; p++ {
					if g.assoc[p] {
						peers = append(peers, p)
					}
				}
				if len(peers) == 0 {
					continue
				}
				ops = append(ops, g.est(t, peers[rapid.IntRange(0, len(peers)-1).Draw(t, "epeer")], seq))
			case "mod":
				if len(liv) == 0 {
					continue
				}
				si := liv[rapid.IntRange(0, len(liv)-1).Draw(t, "msess")]
				if op, ok := g.mod(t, si, seq, ev); ok {
					ops = append(ops, op)
				}
			case "del":
				if len(liv) == 0 {
					continue
				}
				si := liv[rapid.IntRange(0, len(liv)-1).Draw(t, "dsess")]
				ops = append(ops, model.Op{Kind: "del", Peer: g.sess[si].peer, Seq: seq, Sess: si})
				g.sess[si].live = false
			case "unknown":
				k := rapid.SampledFrom([]string{"mod", "del"}).Draw(t, "uk")
				op := model.Op{Kind: k, Peer: rapid.IntRange(0, g.nPeers-1).Draw(t, "upeer"), Seq: seq, Sess: 9999, Addr: "unknown"}
				if k == "mod" {
					op.UpdFARs = []model.FAR{{ID: 2, Action: model.ActDROP, HasFwd: true}}
				}
				ops = append(ops, op)
			case "foreign":
				if len(liv) == 0 || g.nPeers < 2 {
					continue
				}
				si := liv[rapid.IntRange(0, len(liv)-1).Draw(t, "fsess")]
				other := (g.sess[si].peer + 1) % g.nPeers
				k := rapid.SampledFrom([]string{"mod", "del"}).Draw(t, "fk")
				op := model.Op{Kind: k, Peer: other, Seq: seq, Sess: si, Addr: "foreign"}
				if k == "mod" {
					op.UpdFARs = []model.FAR{{ID: 2, Action: model.ActDROP, HasFwd: true}}
				}
				ops = append(ops, op)
			case "noassoc":
				// an establishment from a peer that never associated (extra peer index nPeers)
				idx := len(g.sess)
				c := mkSessCtx(t, idx, g.nPeers)
				op := model.Op{Kind: "est", Peer: g.nPeers, Seq: seq, Sess: idx, CPSEID: uint64(1000 + idx)}
				op.PDRs, op.FARs, op.QERs = genRules(t, g.knobs, c)
				if rapid.Bool().Draw(t, "emptynode") {
					if excluded("estNoAssocEmptyNodeID") {
						ev.Exclude("estNoAssocEmptyNodeID")
						continue
					}
					op.NodeID = "<empty>"
				}
				g.sess = append(g.sess, &genSessModel{peer: g.nPeers, live: false, ctx: c})
				ops = append(ops, op)
			case "wrongnode":
				idx := len(g.sess)
				peer := rapid.IntRange(0, g.nPeers-1).Draw(t, "wpeer")
				c := mkSessCtx(t, idx, peer)
				op := model.Op{Kind: "est", Peer: peer, Seq: seq, Sess: idx, CPSEID: uint64(1000 + idx), NodeID: "172.31.99.99"}
				op.PDRs, op.FARs, op.QERs = genRules(t, g.knobs, c)
				g.sess = append(g.sess, &genSessModel{peer: peer, live: false, ctx: c})
				ops = append(ops, op)
			case "release":
				if rapid.IntRange(0, 3).Draw(t, "rel?") != 0 {
					continue
				}
				peer := rapid.IntRange(0, g.nPeers-1).Draw(t, "rpeer")
				if !g.assoc[peer] {
					continue
				}
				ops = append(ops, opRelease(peer, seq))
				g.assoc[peer] = false
				for _, s := range g.sess {
					if s.peer == peer {
						s.live = false
					}
				}
			}
		}
		return model.Case{Ops: ops}
	}
}

func bessEnv() sim.BessEnv {
	return sim.BessEnv{AccessIP: model.IP2U(accessIP()), CoreIP: model.IP2U(coreIP())}
}

func bessRigAlloc() (*Rig, error) {
	return sharedRig("bess-uealloc", RigOpts{Mut: func(c *pfcpiface.Conf) {
		c.CPIface.EnableUeIPAlloc = true
		c.CPIface.UEIPPool = "10.250.0.0/16"
	}})
}

// cleanStart makes sure the shared datapath holds nothing of an earlier case.
func cleanStart(r *Rig, ev *Ev) {
	if r.B == nil {
		return
	}
	r.B.WaitQuiet(2e9)
	s := r.B.Snap()
	if len(s.PDR)+len(s.FAR)+len(s.AppQ)+len(s.SessQ) != 0 {
		ev.Label("dirty-start")
		r.B.Inject(func(b *rig.Bessd) { b.ResetTables() })
	}
}

func peersOf(c model.Case) int {
	np := 1
	for _, op := range c.Ops {
		if op.Peer+1 > np {
			np = op.Peer + 1
		}
	}
	return np
}

func runC03(c model.Case, ev *Ev) error {
	r, err := bessRigAlloc()
	if err != nil {
		return fmt.Errorf("INFRA: %v", err)
	}
	cleanStart(r, ev)
	run, err := r.newRunner(peersOf(c))
	if err != nil {
		return fmt.Errorf("INFRA: %v", err)
	}
	defer cleanup(run)
	env := bessEnv()
	nMod, maxLive := 0, 0
	for i, op := range c.Ops {
		o := run.Exec(op)
		if o.NoResp {
			return fmt.Errorf("op %d (%s): no response", i, op.Kind)
		}
		mustReject := op.Addr != "" || (op.Kind == "est" && o.Predict == "reject")
		if mustReject && (op.Kind == "est" || op.Kind == "mod" || op.Kind == "del") {
			if o.Accepted {
				return fmt.Errorf("op %d: %s that names an unknown session / arrives without a matching association was accepted (addr=%q nodeid=%q)", i, op.Kind, op.Addr, op.NodeID)
			}
			if cmds := r.B.LogSince(o.CmdFrom); len(cmds) != 0 {
				return fmt.Errorf("op %d: rejected %s wrote %d command(s) to the datapath, first %s %s", i, op.Kind, len(cmds), cmds[0].Module, cmds[0].Cmd)
			}
			ev.Label("rejected-without-effect")
			continue
		}
		if (op.Kind == "est" || op.Kind == "mod" || op.Kind == "del") && !o.Accepted {
			return fmt.Errorf("op %d: %s inside the supported envelope was rejected with cause %d (%s)", i, op.Kind, o.Cause, op.Note)
		}
		if op.Kind == "mod" && (len(op.RemPDRs)+len(op.RemFARs)+len(op.RemQERs)+len(op.UpdPDRs)+len(op.UpdFARs)+len(op.UpdQERs) > 0) {
			nMod++
		}
		if n := len(run.LiveSessions()); n > maxLive {
			maxLive = n
		}
		if op.Kind == "est" || op.Kind == "mod" || op.Kind == "del" || op.Kind == "release" {
			snap := r.B.Snap()
			if err := run.CheckBessImage(snap, env, sim.BessImageOpts{Packets: true, QER: true}); err != nil {
				return fmt.Errorf("after op %d (%s %s): %w", i, op.Kind, op.Note, err)
			}
			ev.Label(op.Kind + "/" + op.Note)
		}
	}
	ev.Case(c, maxLive >= 2 && nMod >= 1, len(c.Ops))
	return nil
}

func TestC03(t *testing.T) {
	ev := newEv("C03")
	ev.Rule = "rapid state machine on the BESS datapath: 1-3 associations, up to 6 live sessions, establish (1-2 uplink/downlink PDR pairs, F-TEID given or CHOOSE, UE address given or UP-allocated, SDF filters with prefixes/protocols/port ranges, 0-3 QERs), modifications (create/update/remove of PDR, FAR, QER), deletion, release, and requests that must be rejected without effect; after every accepted request the settled table snapshot is compared with the denotation of the model (structure + boundary-packet classification); non-trivial = >=2 live sessions and >=1 modification that removes or updates a rule; distinct by canonical op list"
	ev.Assume = []string{"exact-image oracle applies inside the supported IPv4 envelope of DESIGN.md section 5", "ctr_id is not asserted", "packets are boundary samples of the eight match fields around every installed rule"}
	runProp(t, ev, "history", true, genC03(ev), runC03)
}

func init() {
	registerFns = append(registerFns, func() { registerReplay("C03", "history", runC03) })
}
