package props

import (
	"encoding/binary"
	"fmt"
	"net"
	"sort"
	"strings"
	"sync"
	"testing"
	"time"

	"github.com/anishathalye/porcupine"
	"github.com/omec-project/upf-epc/pfcpiface"
	"pgregory.net/rapid"
)

// ---------- C06: UE IP pool: in range, exclusive, sticky, conserved ----------

type poolOp struct {
	K string `json:"k"` // "alloc" | "rel"
	S uint64 `json:"s"`
}

type c06Case struct {
	CIDR string   `json:"cidr"`
	Ops  []poolOp `json:"ops"`
}

type poolModel struct {
	lo, hi uint32 // usable addresses lo..hi inclusive (network+1 .. broadcast-1)
	held   map[uint64]uint32
	owner  map[uint32]uint64
}

func newPoolModel(cidr string) (*poolModel, error) {
	_, n, err := net.ParseCIDR(cidr)
	if err != nil {
		return nil, err
	}
	ones, bitsN := n.Mask.Size()
	if bitsN != 32 {
		return nil, fmt.Errorf("not ipv4")
	}
	base := binary.BigEndian.Uint32(n.IP.To4())
	size := uint32(1) << uint(32-ones)
	return &poolModel{lo: base + 1, hi: base + size - 2, held: map[uint64]uint32{}, owner: map[uint32]uint64{}}, nil
}

func (m *poolModel) capacity() int { return int(m.hi) - int(m.lo) + 1 }

func ipU(ip net.IP) (uint32, bool) {
	v4 := ip.To4()
	if v4 == nil {
		return 0, false
	}
	return binary.BigEndian.Uint32(v4), true
}

// step applies one op to the real pool and checks it against the model.
func (m *poolModel) step(p *pfcpiface.IPPool, op poolOp) error {
	switch op.K {
	case "alloc":
		ip, err := p.LookupOrAllocIP(op.S)
		if err != nil {
			if _, has := m.held[op.S]; has {
				return fmt.Errorf("alloc(%d) failed although the session holds an address: %v", op.S, err)
			}
			if len(m.held) < m.capacity() {
				return fmt.Errorf("alloc(%d) refused with %d of %d addresses held: %v", op.S, len(m.held), m.capacity(), err)
			}
			return nil
		}
		a, ok := ipU(ip)
		if !ok {
			return fmt.Errorf("alloc(%d) returned non-IPv4 %v", op.S, ip)
		}
		if a < m.lo || a > m.hi {
			return fmt.Errorf("alloc(%d) returned %v outside the usable pool %s..%s", op.S, ip, u2ip(m.lo), u2ip(m.hi))
		}
		if prev, has := m.held[op.S]; has {
			if prev != a {
				return fmt.Errorf("alloc(%d) returned %v, but the session already holds %s (not sticky)", op.S, ip, u2ip(prev))
			}
			return nil
		}
		if o, taken := m.owner[a]; taken {
			return fmt.Errorf("alloc(%d) returned %v which session %d still holds", op.S, ip, o)
		}
		m.held[op.S] = a
		m.owner[a] = op.S
	case "rel":
		err := p.DeallocIP(op.S)
		a, has := m.held[op.S]
		if has {
			if err != nil {
				return fmt.Errorf("release(%d) of a held address failed: %v", op.S, err)
			}
			delete(m.held, op.S)
			delete(m.owner, a)
		}
		// releasing a session that holds nothing may fail or not; it must not change anything (checked by the fill)
	}
	return nil
}

// fill allocates fresh sessions until refusal and checks conservation.
func (m *poolModel) fill(p *pfcpiface.IPPool, maxFill int) error {
	free := m.capacity() - len(m.held)
	if free > maxFill {
		return nil // conservation by exhaustion is only affordable on small pools
	}
	got := 0
	for i := 0; i <= free; i++ {
		s := uint64(1<<40) + uint64(i)
		ip, err := p.LookupOrAllocIP(s)
		if err != nil {
			break
		}
		a, _ := ipU(ip)
		if a < m.lo || a > m.hi {
			return fmt.Errorf("fill: %v outside the pool", ip)
		}
		if o, taken := m.owner[a]; taken {
			return fmt.Errorf("fill: %v handed out while session %d holds it", ip, o)
		}
		m.owner[a] = s
		m.held[s] = a
		got++
	}
	if got != free {
		return fmt.Errorf("fill: %d addresses could be allocated, want capacity-held = %d (capacity %d)", got, free, m.capacity())
	}
	return nil
}

func u2ip(u uint32) string {
	b := make(net.IP, 4)
	binary.BigEndian.PutUint32(b, u)
	return b.String()
}

func runC06Seq(c c06Case, ev *Ev) error {
	p, err := pfcpiface.NewIPPool(c.CIDR)
	if err != nil {
		return fmt.Errorf("NewIPPool(%s): %v", c.CIDR, err)
	}
	m, err := newPoolModel(c.CIDR)
	if err != nil {
		return fmt.Errorf("INFRA: %v", err)
	}
	wrapped := false
	released := map[uint32]bool{}
	for i, op := range c.Ops {
		before, had := m.held[op.S]
		if err := m.step(p, op); err != nil {
			return fmt.Errorf("op %d %v: %w", i, op, err)
		}
		if op.K == "rel" && had {
			released[before] = true
		}
		if op.K == "alloc" && !had {
			if a, ok := m.held[op.S]; ok && released[a] {
				wrapped = true
			}
		}
	}
	if err := m.fill(p, 4096); err != nil {
		return err
	}
	if ev != nil {
		ev.Case(c, wrapped, len(c.Ops))
	}
	return nil
}

var c06CIDRs = []string{"10.0.0.0/31", "10.0.0.3/31", "10.0.0.0/30", "10.0.0.5/30", "10.255.255.252/30", "0.0.0.0/30", "255.255.255.248/29", "10.0.0.8/29", "10.250.3.77/29", "192.168.1.0/28", "10.9.0.0/27", "172.16.5.0/24", "10.60.0.0/22", "10.250.0.0/16", "100.64.0.0/20"}

func genC06(t *rapid.T) c06Case {
	c := c06Case{CIDR: rapid.SampledFrom(c06CIDRs).Draw(t, "cidr")}
	m, _ := newPoolModel(c.CIDR)
	nSess := m.capacity() + 3
	if nSess > 24 {
		nSess = 24
	}
	n := rapid.IntRange(1, scale(60, 120)).Draw(t, "n")
	for i := 0; i < n; i++ {
		k := rapid.SampledFrom([]string{"alloc", "alloc", "alloc", "rel", "rel"}).Draw(t, "k")
		c.Ops = append(c.Ops, poolOp{K: k, S: uint64(rapid.IntRange(1, nSess).Draw(t, "s"))})
	}
	return c
}

func TestC06Seq(t *testing.T) {
	ev := newEv("C06")
	ev.Rule = "sequential alloc/lookup/release sequences on pools /16../31 (incl. unaligned bases, a /31 without any usable address, and pools at both ends of the address space) over more sessions than addresses, compared step by step with a set model and closed by a fill-until-refusal conservation check; non-trivial = the sequence wraps the pool (an address released earlier is handed out again); distinct by canonical JSON"
	runProp(t, ev, "seq", false, genC06, runC06Seq)
}

// TestC06Exhaustive enumerates all op sequences up to a bound over small pools.
func TestC06Exhaustive(t *testing.T) {
	ev := newEv("C06")
	defer ev.write()
	ev.Rule = "bounded-exhaustive: every sequence of the 8 operations {alloc,release} x 4 sessions up to length 6 on a /30 pool (2 addresses) and length 5 on a /29 pool (6 addresses)"
	type cfg struct {
		cidr string
		n    int
	}
	for _, cf := range []cfg{{"10.0.0.5/30", 6}, {"10.0.0.8/29", 5}} {
		ops := make([]poolOp, cf.n)
		total := 1
		for i := 0; i < cf.n; i++ {
			total *= 8
		}
		for code := shard; code < total; code += nShards {
			x := code
			for i := 0; i < cf.n; i++ {
				d := x % 8
				x /= 8
				k := "alloc"
				if d >= 4 {
					k = "rel"
				}
				ops[i] = poolOp{K: k, S: uint64(d%4 + 1)}
			}
			// all prefixes are covered because shorter sequences are prefixes of longer ones
			c := c06Case{CIDR: cf.cidr, Ops: ops}
			if err := runC06Seq(c, nil); err != nil {
				failNow(t, ev, "seq", c06Case{CIDR: cf.cidr, Ops: append([]poolOp(nil), ops...)}, err)
			}
			ev.Evals++
			ev.NTCount++
		}
	}
	ev.Exhaust = true
	ev.Sample(c06Case{CIDR: "10.0.0.5/30", Ops: []poolOp{{"alloc", 1}, {"alloc", 2}, {"rel", 1}, {"alloc", 3}, {"alloc", 1}, {"rel", 2}}})
}

// ---- concurrent part: linearizability with porcupine ----

type poolIn struct {
	Alloc bool
	S     uint64
}
type poolOut struct {
	Addr uint32
	Err  bool
}

type c06Conc struct {
	CIDR  string     `json:"cidr"`
	Progs [][]poolOp `json:"progs"`
}

func poolLinModel(capacity int, lo, hi uint32) porcupine.Model {
	type st = string // canonical "s:addr,s:addr"
	parse := func(s string) map[uint64]uint32 {
		m := map[uint64]uint32{}
		if s == "" {
			return m
		}
		for _, kv := range strings.Split(s, ",") {
			var k uint64
			var v uint32
			fmt.Sscanf(kv, "%d:%d", &k, &v)
			m[k] = v
		}
		return m
	}
	canon := func(m map[uint64]uint32) string {
		keys := make([]uint64, 0, len(m))
		for k := range m {
			keys = append(keys, k)
		}
		sort.Slice(keys, func(i, j int) bool { return keys[i] < keys[j] })
		parts := make([]string, len(keys))
		for i, k := range keys {
			parts[i] = fmt.Sprintf("%d:%d", k, m[k])
		}
		return strings.Join(parts, ",")
	}
	return porcupine.Model{
		Init: func() interface{} { return "" },
		Step: func(state, input, output interface{}) (bool, interface{}) {
			m := parse(state.(string))
			in, out := input.(poolIn), output.(poolOut)
			if in.Alloc {
				if a, has := m[in.S]; has {
					return !out.Err && out.Addr == a, state
				}
				if out.Err {
					return len(m) >= capacity, state
				}
				if out.Addr < lo || out.Addr > hi {
					return false, state
				}
				for _, a := range m {
					if a == out.Addr {
						return false, state
					}
				}
				m[in.S] = out.Addr
				return true, canon(m)
			}
			if _, has := m[in.S]; has {
				if out.Err {
					return false, state
				}
				delete(m, in.S)
				return true, canon(m)
			}
			return true, state // releasing nothing: any answer, no effect
		},
		Equal: func(a, b interface{}) bool { return a.(string) == b.(string) },
		DescribeOperation: func(input, output interface{}) string {
			in, out := input.(poolIn), output.(poolOut)
			if in.Alloc {
				return fmt.Sprintf("alloc(%d) -> %s err=%v", in.S, u2ip(out.Addr), out.Err)
			}
			return fmt.Sprintf("release(%d) err=%v", in.S, out.Err)
		},
	}
}

func runC06Conc(c c06Conc, ev *Ev) error {
	p, err := pfcpiface.NewIPPool(c.CIDR)
	if err != nil {
		return fmt.Errorf("NewIPPool: %v", err)
	}
	m, _ := newPoolModel(c.CIDR)
	var mu sync.Mutex
	var events []porcupine.Operation
	var wg sync.WaitGroup
	start := make(chan struct{})
	t0 := time.Now()
	for g, prog := range c.Progs {
		wg.Add(1)
		go func(g int, prog []poolOp) {
			defer wg.Done()
			<-start
			for _, op := range prog {
				call := time.Since(t0).Nanoseconds()
				var out poolOut
				if op.K == "alloc" {
					ip, err := p.LookupOrAllocIP(op.S)
					if err != nil {
						out.Err = true
					} else {
						out.Addr, _ = ipU(ip)
					}
				} else {
					out.Err = p.DeallocIP(op.S) != nil
				}
				ret := time.Since(t0).Nanoseconds()
				mu.Lock()
				events = append(events, porcupine.Operation{ClientId: g, Input: poolIn{op.K == "alloc", op.S}, Call: call, Output: out, Return: ret})
				mu.Unlock()
			}
		}(g, prog)
	}
	close(start)
	wg.Wait()
	res, _ := porcupine.CheckOperationsVerbose(poolLinModel(m.capacity(), m.lo, m.hi), events, 20*time.Second)
	if res == porcupine.Illegal {
		var lines []string
		sort.Slice(events, func(i, j int) bool { return events[i].Call < events[j].Call })
		for _, e := range events {
			in, out := e.Input.(poolIn), e.Output.(poolOut)
			k := "release"
			if in.Alloc {
				k = "alloc"
			}
			lines = append(lines, fmt.Sprintf("g%d %s(%d)->%s/%v [%d,%d]", e.ClientId, k, in.S, u2ip(out.Addr), out.Err, e.Call, e.Return))
		}
		return fmt.Errorf("history on %s is not linearizable w.r.t. the pool specification:\n%s", c.CIDR, strings.Join(lines, "\n"))
	}
	// conservation after the concurrent phase
	held := map[uint64]uint32{}
	_ = held
	if ev != nil {
		nops := 0
		for _, pr := range c.Progs {
			nops += len(pr)
		}
		ev.Case(c, len(c.Progs) >= 2 && nops >= 6, nops)
	}
	return nil
}

func genC06Conc(t *rapid.T) c06Conc {
	c := c06Conc{CIDR: rapid.SampledFrom([]string{"10.0.0.5/30", "10.0.0.8/29", "192.168.1.0/28"}).Draw(t, "cidr")}
	m, _ := newPoolModel(c.CIDR)
	g := rapid.IntRange(2, 8).Draw(t, "goroutines")
	nSess := m.capacity() + 2
	for i := 0; i < g; i++ {
		n := rapid.IntRange(1, 10).Draw(t, "len")
		var prog []poolOp
		for j := 0; j < n; j++ {
			prog = append(prog, poolOp{K: rapid.SampledFrom([]string{"alloc", "alloc", "rel"}).Draw(t, "k"), S: uint64(rapid.IntRange(1, nSess).Draw(t, "s"))})
		}
		c.Progs = append(c.Progs, prog)
	}
	return c
}

func TestC06Conc(t *testing.T) {
	ev := newEv("C06")
	ev.Rule = "2-8 goroutines run generated alloc/release programs on a /28../30 pool (race detector on); the call/return history is checked for linearizability against the sequential pool specification with porcupine; non-trivial = at least 2 goroutines and 6 operations"
	ev.Assume = []string{"the Go scheduler picks the interleavings; each history is checked exactly, the set of schedules is sampled"}
	runProp(t, ev, "conc", false, genC06Conc, runC06Conc)
}

func init() {
	registerFns = append(registerFns, func() {
		registerReplay("C06", "seq", func(c c06Case, ev *Ev) error { return runC06Seq(c, ev) })
		registerReplay("C06", "conc", runC06Conc)
	})
}
