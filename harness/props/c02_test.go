package props

import (
	"encoding/hex"
	"fmt"
	"testing"
	"time"

	"github.com/omec-project/upf-epc/pfcpiface"
	"github.com/wmnsk/go-pfcp/ie"
	"github.com/wmnsk/go-pfcp/message"
	"pgregory.net/rapid"

	"verif/harness/model"
	"verif/harness/sim"
)

// ---------- C02: every request gets exactly one correctly addressed response ----------

type c02gen struct {
	nPeers int
	assoc  []bool
	sess   []c02sess
}

type c02sess struct {
	peer int
	live bool
}

func respTypeMsg(t *rapid.T, seq uint32, seid uint64) []byte {
	var m message.Message
	switch rapid.IntRange(0, 7).Draw(t, "resptype") {
	case 0:
		m = message.NewHeartbeatResponse(seq, ie.NewRecoveryTimeStamp(model.PeerTS))
	case 1:
		m = message.NewAssociationSetupResponse(seq, ie.NewNodeID("127.0.0.99", "", ""), ie.NewCause(ie.CauseRequestAccepted), ie.NewRecoveryTimeStamp(model.PeerTS))
	case 2:
		m = message.NewAssociationReleaseResponse(seq, ie.NewNodeID("127.0.0.99", "", ""), ie.NewCause(ie.CauseRequestAccepted))
	case 3:
		m = message.NewPFDManagementResponse(seq, ie.NewCause(ie.CauseRequestAccepted), nil)
	case 4:
		m = message.NewSessionEstablishmentResponse(0, 0, seid, seq, 0, ie.NewNodeID("127.0.0.99", "", ""), ie.NewCause(ie.CauseRequestAccepted))
	case 5:
		m = message.NewSessionModificationResponse(0, 0, seid, seq, 0, ie.NewCause(ie.CauseRequestAccepted))
	case 6:
		m = message.NewSessionDeletionResponse(0, 0, seid, seq, 0, ie.NewCause(ie.CauseRequestAccepted))
	default:
		m = message.NewSessionReportResponse(0, 0, seid, seq, 0, ie.NewCause(ie.CauseRequestAccepted))
	}
	return model.Marshal(m)
}

func genC02(t *rapid.T) model.Case {
	g := &c02gen{nPeers: rapid.IntRange(1, 3).Draw(t, "peers")}
	g.assoc = make([]bool, g.nPeers)
	knobs := ruleKnobs{maxPairs: 2, choose: true, ueAlloc: true, sdf: true, qers: true, buffer: true, sessQER: true, accessN3: accessIP()}
	n := rapid.IntRange(1, scale(30, 45)).Draw(t, "nops")
	var ops []model.Op
	// most histories begin with the associations in place, so that session requests are mostly accepted ones
	for p := 0; p < g.nPeers; p++ {
		if rapid.IntRange(0, 3).Draw(t, "preassoc") != 0 {
			ops = append(ops, opAssoc(p, genSeq(t)))
			g.assoc[p] = true
		}
	}
	// pickSess prefers sessions the generator believes to be live
	pickSess := func(label string) int {
		var live []int
		for j, x := range g.sess {
			if x.live {
				live = append(live, j)
			}
		}
		if len(live) > 0 && rapid.IntRange(0, 3).Draw(t, label+"live") != 0 {
			return live[rapid.IntRange(0, len(live)-1).Draw(t, label)]
		}
		return rapid.IntRange(0, len(g.sess)-1).Draw(t, label)
	}
	for i := 0; i < n; i++ {
		peer := rapid.IntRange(0, g.nPeers-1).Draw(t, "peer")
		seq := genSeq(t)
		kind := rapid.SampledFrom([]string{"assoc", "assoc", "hb", "pfd", "est", "est", "est", "mod", "mod", "del", "del", "release", "resp", "estbad", "modaddr", "deladdr"}).Draw(t, "kind")
		switch kind {
		case "assoc":
			ops = append(ops, opAssoc(peer, seq))
			g.assoc[peer] = true
		case "hb":
			ops = append(ops, model.Op{Kind: "hb", Peer: peer, Seq: seq})
		case "pfd":
			op := model.Op{Kind: "pfd", Peer: peer, Seq: seq}
			np := rapid.IntRange(0, 3).Draw(t, "npfd")
			for j := 0; j < np; j++ {
				f := model.PFD{App: fmt.Sprintf("app%d", j), Flows: []string{"permit out ip from 8.8.8.8 to assigned", "permit in udp from 8.8.4.4 53 to assigned"}}
				f.Bad = rapid.SampledFrom([]string{"", "", "", "emptyfd", "nocontents"}).Draw(t, "badpfd")
				op.PFDs = append(op.PFDs, f)
			}
			ops = append(ops, op)
		case "est":
			idx := len(g.sess)
			c := mkSessCtx(t, idx, peer)
			op := model.Op{Kind: "est", Peer: peer, Seq: seq, Sess: idx, CPSEID: genSEID(t)}
			op.PDRs, op.FARs, op.QERs = genRules(t, knobs, c)
			if rapid.IntRange(0, 3).Draw(t, "n9") == 0 {
				// a core-side PDR whose F-TEID the UP is to choose (N9 / S5-S8 style): it needs its Created PDR, too
				op.PDRs = append(op.PDRs, model.PDR{ID: 90, Prec: 300, Src: "core", FTEID: true, Choose: true, OHR: true, FAR: op.FARs[len(op.FARs)-1].ID})
			}
			g.sess = append(g.sess, c02sess{peer: peer, live: g.assoc[peer]})
			ops = append(ops, op)
		case "estbad":
			idx := len(g.sess)
			c := mkSessCtx(t, idx, peer)
			op := model.Op{Kind: "est", Peer: peer, Seq: seq, Sess: idx, CPSEID: genSEID(t), Note: "bad"}
			op.PDRs, op.FARs, op.QERs = genRules(t, knobs, c)
			if rapid.Bool().Draw(t, "badnode") {
				op.NodeID = "127.99.99.99"
			} else {
				op.PDRs[len(op.PDRs)-1].Src = "cp"
			}
			g.sess = append(g.sess, c02sess{peer: peer, live: false})
			ops = append(ops, op)
		case "mod", "modaddr":
			if len(g.sess) == 0 {
				continue
			}
			si := pickSess("sess")
			op := model.Op{Kind: "mod", Peer: g.sess[si].peer, Seq: seq, Sess: si}
			if kind == "modaddr" {
				op.Addr = rapid.SampledFrom([]string{"unknown", "foreign"}).Draw(t, "addr")
				if op.Addr == "foreign" {
					op.Peer = (g.sess[si].peer + 1) % g.nPeers
					if op.Peer == g.sess[si].peer {
						op.Addr = "unknown"
					}
				}
			}
			switch rapid.IntRange(0, 3).Draw(t, "modkind") {
			case 0: // Update FAR of the first downlink FAR: new tunnel
				op.UpdFARs = []model.FAR{{ID: 2, Action: model.ActFORW, HasFwd: true, DstIf: model.IfAccess, HasOHC: true,
					TEID: uint32(rapid.IntRange(1, 1<<30).Draw(t, "nteid")), Peer: "198.18.9.9"}}
			case 1: // new CP F-SEID
				op.NewCP, op.NewCPSEID = true, genSEID(t)
			case 2: // update of a rule id that does not exist: outcome left open
				op.UpdFARs = []model.FAR{{ID: 999, Action: model.ActDROP, HasFwd: true}}
				op.Note = "any"
			case 3: // removal of a rule id that does not exist: outcome left open
				op.RemPDRs = []uint16{999}
				op.Note = "any"
			}
			ops = append(ops, op)
		case "del", "deladdr":
			if len(g.sess) == 0 {
				continue
			}
			si := pickSess("sess")
			op := model.Op{Kind: "del", Peer: g.sess[si].peer, Seq: seq, Sess: si}
			if kind == "deladdr" {
				op.Addr = "unknown"
			} else {
				g.sess[si].live = false
			}
			ops = append(ops, op)
		case "release":
			if !g.assoc[peer] {
				continue
			}
			ops = append(ops, opRelease(peer, seq))
			g.assoc[peer] = false
			for j := range g.sess {
				if g.sess[j].peer == peer {
					g.sess[j].live = false
				}
			}
		case "resp":
			ops = append(ops, model.Op{Kind: "raw", Peer: peer, Seq: seq, Note: "resp", Raw: hex.EncodeToString(respTypeMsg(t, seq, genSEID(t)))})
		}
	}
	cs := model.Case{Ops: ops}
	if rapid.IntRange(0, 2).Draw(t, "nodeid") == 0 {
		cs.Conf = map[string]any{"nodeid": true}
	}
	return cs
}

// checkRespC02 is the per-op oracle of C02.
func checkRespC02(run *sim.Runner, o *sim.Obs, n4 string) error {
	op := o.Op
	if op.Kind == "sleep" {
		return nil
	}
	if op.Kind == "raw" {
		if !o.Alive {
			return fmt.Errorf("agent stopped answering after a response-type message (%s)", op.Raw)
		}
		if len(o.Extra) != 0 {
			return fmt.Errorf("response-type message was answered with %d datagram(s): %x", len(o.Extra), o.Extra[0])
		}
		return nil
	}
	if o.NoResp {
		return fmt.Errorf("%s seq=%d: no response (alive=%v): %v", op.Kind, op.Seq, o.Alive, o.Err)
	}
	if o.Resp == nil {
		return fmt.Errorf("%s seq=%d: %v", op.Kind, op.Seq, o.Err)
	}
	if len(o.Extra) != 0 {
		return fmt.Errorf("%s seq=%d: %d extra datagram(s) after the response: %x", op.Kind, op.Seq, len(o.Extra), o.Extra[0])
	}
	if !o.Alive {
		return fmt.Errorf("%s seq=%d: agent did not answer the probe after its response", op.Kind, op.Seq)
	}
	wantType := map[string]uint8{
		"assoc": message.MsgTypeAssociationSetupResponse, "release": message.MsgTypeAssociationReleaseResponse,
		"hb": message.MsgTypeHeartbeatResponse, "pfd": message.MsgTypePFDManagementResponse,
		"est": message.MsgTypeSessionEstablishmentResponse, "mod": message.MsgTypeSessionModificationResponse,
		"del": message.MsgTypeSessionDeletionResponse,
	}[op.Kind]
	if o.Resp.MessageType() != wantType {
		return fmt.Errorf("%s seq=%d: response type %d, want %d", op.Kind, op.Seq, o.Resp.MessageType(), wantType)
	}
	if o.Resp.Sequence() != op.Seq {
		return fmt.Errorf("%s: response sequence %d, want %d", op.Kind, o.Resp.Sequence(), op.Seq)
	}
	if op.Kind == "hb" {
		return nil
	}
	if _, ok := causeOfMsg(o.Resp); !ok {
		return fmt.Errorf("%s seq=%d: response carries no readable Cause", op.Kind, op.Seq)
	}
	s := run.Sess[op.Sess]
	switch op.Kind {
	case "est":
		if !o.Accepted {
			if o.Predict == "reject" && o.Cause == ie.CauseRequestAccepted {
				return fmt.Errorf("est: accepted although it had to be rejected")
			}
			return nil
		}
		if o.Predict == "reject" {
			return fmt.Errorf("est seq=%d accepted although it had to be rejected (no association for this Node ID / unsupported PDR)", op.Seq)
		}
		er := o.Resp.(*message.SessionEstablishmentResponse)
		if !er.HasSEID() || er.SEID() != op.CPSEID {
			return fmt.Errorf("est: accepted response header SEID %#x (S=%v), want CP SEID %#x", er.SEID(), er.HasSEID(), op.CPSEID)
		}
		if er.NodeID == nil {
			return fmt.Errorf("est: accepted response without Node ID")
		}
		wantNID := n4
		if run.AgentNodeID != "" {
			wantNID = run.AgentNodeID
		}
		nid, err := er.NodeID.NodeID()
		if err != nil || nid != wantNID {
			return fmt.Errorf("est: Node ID %q (%v), want the agent's %q", nid, err, wantNID)
		}
		if er.UPFSEID == nil {
			return fmt.Errorf("est: accepted response without UP F-SEID")
		}
		f, err := er.UPFSEID.FSEID()
		if err != nil {
			return fmt.Errorf("est: UP F-SEID unreadable: %v", err)
		}
		if f.SEID == 0 {
			return fmt.Errorf("est: UP F-SEID is zero")
		}
		if f.IPv4Address == nil || f.IPv4Address.String() != n4 {
			return fmt.Errorf("est: UP F-SEID address %v, want N4 address %s", f.IPv4Address, n4)
		}
		// one Created PDR per UP-chosen F-TEID and per UP-allocated UE address
		wantT, wantU := map[uint16]bool{}, map[uint16]bool{}
		for _, p := range op.PDRs {
			if p.FTEID && p.Choose {
				wantT[p.ID] = true
			}
			if p.HasUE && p.UEAlloc {
				wantU[p.ID] = true
			}
		}
		gotT, gotU := map[uint16]int{}, map[uint16]int{}
		for _, c := range er.CreatedPDR {
			id, err := c.PDRID()
			if err != nil {
				return fmt.Errorf("est: Created PDR without PDR ID")
			}
			_, e1 := c.FTEID()
			_, e2 := c.UEIPAddress()
			switch {
			case e1 == nil:
				gotT[id]++
			case e2 == nil:
				gotU[id]++
			default:
				return fmt.Errorf("est: Created PDR %d carries neither F-TEID nor UE IP address", id)
			}
		}
		for id := range wantT {
			if gotT[id] != 1 {
				return fmt.Errorf("est: %d Created PDR with F-TEID for PDR %d, want 1", gotT[id], id)
			}
		}
		for id := range wantU {
			if gotU[id] != 1 {
				return fmt.Errorf("est: %d Created PDR with UE IP address for PDR %d, want 1", gotU[id], id)
			}
		}
		for id := range gotT {
			if !wantT[id] {
				return fmt.Errorf("est: unexpected Created PDR (F-TEID) for PDR %d", id)
			}
		}
		for id := range gotU {
			if !wantU[id] {
				return fmt.Errorf("est: unexpected Created PDR (UE IP) for PDR %d", id)
			}
		}
	case "mod", "del":
		h := o.Resp.(interface {
			HasSEID() bool
			SEID() uint64
		})
		unknown := op.Addr != "" || s == nil
		if o.Accepted {
			if o.Predict == "reject" {
				return fmt.Errorf("%s seq=%d accepted although the session is not known to this association (addr=%q)", op.Kind, op.Seq, op.Addr)
			}
			want := s.CPSEID // model already updated by an accepted CP F-SEID change
			if !h.HasSEID() || h.SEID() != want {
				return fmt.Errorf("%s: accepted response header SEID %#x (S=%v), want CP SEID %#x", op.Kind, h.SEID(), h.HasSEID(), want)
			}
		} else {
			if o.Predict == "accept" {
				return fmt.Errorf("%s seq=%d for live session %d (UP SEID %#x) rejected with cause %d", op.Kind, op.Seq, op.Sess, s.UPSEID, o.Cause)
			}
			if o.Cause == ie.CauseRequestAccepted {
				return fmt.Errorf("%s: rejected without rejection cause", op.Kind)
			}
			if unknown || (s != nil && o.Predict == "reject") {
				if h.SEID() != 0 {
					return fmt.Errorf("%s: rejection for unknown session carries SEID %#x, want 0", op.Kind, h.SEID())
				}
			}
		}
	case "assoc", "release", "pfd":
		if o.Predict == "accept" && !o.Accepted {
			// association acceptance depends on datapath connectivity (C12); PFD acceptance is C08
			if op.Kind != "assoc" {
				return fmt.Errorf("%s seq=%d rejected with cause %d", op.Kind, op.Seq, o.Cause)
			}
		}
		if o.Predict == "reject" && o.Accepted {
			return fmt.Errorf("%s seq=%d accepted although malformed", op.Kind, op.Seq)
		}
	}
	return nil
}

func causeOfMsg(m message.Message) (uint8, bool) {
	type causer interface{}
	var c *ie.IE
	switch x := m.(type) {
	case *message.AssociationSetupResponse:
		c = x.Cause
	case *message.AssociationReleaseResponse:
		c = x.Cause
	case *message.PFDManagementResponse:
		c = x.Cause
	case *message.SessionEstablishmentResponse:
		c = x.Cause
	case *message.SessionModificationResponse:
		c = x.Cause
	case *message.SessionDeletionResponse:
		c = x.Cause
	}
	if c == nil {
		return 0, false
	}
	v, err := c.Cause()
	return v, err == nil
}

func runC02(c model.Case, ev *Ev) error {
	// a third of the histories run against an agent whose Node ID is configured (cpiface.hostname) and differs from
	// the address of its N4 socket: the Node ID names the node, the UP F-SEID carries the N4 address
	name, nodeID := "bess-uealloc", ""
	if b, _ := c.Conf["nodeid"].(bool); b {
		name, nodeID = "bess-uealloc-nodeid", "198.18.0.1"
	}
	r, err := sharedRig(name, RigOpts{Mut: func(c *pfcpiface.Conf) {
		c.CPIface.EnableUeIPAlloc = true
		c.CPIface.UEIPPool = "10.250.0.0/16"
		c.CPIface.NodeID = nodeID
	}})
	if err != nil {
		return fmt.Errorf("INFRA: %v", err)
	}
	np := 1
	for _, op := range c.Ops {
		if op.Peer+1 > np {
			np = op.Peer + 1
		}
	}
	run, err := r.newRunner(np)
	if err != nil {
		return fmt.Errorf("INFRA: %v", err)
	}
	defer cleanup(run)
	run.AgentNodeID = nodeID
	if nodeID != "" {
		ev.Label("configured-node-id")
	}
	var acc, rej int
	sessTouched := map[int]bool{}
	for i, op := range c.Ops {
		o := run.Exec(op)
		if err := checkRespC02(run, o, r.A.N4); err != nil {
			return fmt.Errorf("op %d: %w", i, err)
		}
		if op.Kind == "est" || op.Kind == "mod" || op.Kind == "del" {
			if o.Accepted {
				acc++
				sessTouched[op.Sess] = true
			} else {
				rej++
			}
			ev.Label(fmt.Sprintf("%s/%v", op.Kind, o.Accepted))
		} else {
			ev.Label(op.Kind)
		}
	}
	ev.Case(c, len(sessTouched) >= 2 && acc >= 1 && rej >= 1, len(c.Ops))
	return nil
}

func TestC02(t *testing.T) {
	ev := newEv("C02")
	ev.Rule = "rapid state machine over 1-3 associations and 0-n sessions (associate, heartbeat, PFD management, establish valid/invalid, modify valid/unknown/foreign SEID, delete, release, injected response-type messages; 24-bit sequence numbers and 64-bit CP SEIDs with boundaries); non-trivial = at least 2 sessions touched by accepted requests and at least one accepted and one rejected session request; distinct by canonical JSON of the op list"
	ev.Assume = []string{"probe technique: per-association handling is sequential, so everything read before the probe heartbeat's answer is the complete reaction to the injected datagram",
		"acceptance of a well-formed establishment is asserted by C01's canonical scenario, not here"}
	t0 := time.Now()
	runProp(t, ev, "history", true, genC02, runC02)
	_ = t0
}

func init() {
	registerFns = append(registerFns, func() { registerReplay("C02", "history", runC02) })
}
