package props

import (
	"fmt"
	"testing"

	"pgregory.net/rapid"

	"verif/harness/model"
	"verif/harness/sim"
)

// ---------- C09 on UP4: meter cells on every PDR's path carry the signalled peak rates ----------

func genC09UP4(ev *Ev) func(t *rapid.T) model.Case {
	return func(t *rapid.T) model.Case {
		v := rapid.IntRange(0, len(up4Variants)-1).Draw(t, "variant")
		ops := []model.Op{opAssoc(0, 100)}
		var gs []*up4GenSess
		n := rapid.IntRange(1, scale(10, 16)).Draw(t, "n")
		seq := uint32(5000)
		for i := 0; i < n; i++ {
			seq++
			var liveIdx []int
			for k, s := range gs {
				if s.live {
					liveIdx = append(liveIdx, k)
				}
			}
			switch rapid.SampledFrom([]string{"est", "est", "est", "updqer", "updqer", "updfar", "del"}).Draw(t, "k") {
			case "est":
				if len(liveIdx) >= 4 {
					continue
				}
				if excluded("up4AppQerAsymmetricRates") {
					ev.Exclude("up4AppQerAsymmetricRates")
				}
				op, g := genUP4Sess(t, len(gs), 0, up4Variants[v].Alloc, false)
				ops = append(ops, op)
				gs = append(gs, g)
			case "updqer":
				// an Update QER that changes rates, gates and QFI of one of the session's QERs
				if len(liveIdx) == 0 {
					continue
				}
				si := liveIdx[rapid.IntRange(0, len(liveIdx)-1).Draw(t, "si")]
				if len(gs[si].qers) == 0 {
					continue
				}
				qi := rapid.IntRange(0, len(gs[si].qers)-1).Draw(t, "qi")
				q := genQER(t, gs[si].qers[qi].ID, false)
				q.GBRUL, q.GBRDL = 0, 0
				if excluded("up4AppQerAsymmetricRates") && len(gs[si].qers) == 2 {
					q.MBRDL = q.MBRUL
				}
				gs[si].qers[qi] = q
				ops = append(ops, model.Op{Kind: "mod", Peer: 0, Seq: seq, Sess: si, UpdQERs: []model.QER{q}, Note: "updqer"})
			case "updfar":
				if len(liveIdx) == 0 {
					continue
				}
				si := liveIdx[rapid.IntRange(0, len(liveIdx)-1).Draw(t, "si")]
				nf := genUP4DLFAR(t, 2)
				gs[si].dlFAR = nf
				ops = append(ops, model.Op{Kind: "mod", Peer: 0, Seq: seq, Sess: si, UpdFARs: []model.FAR{nf}, Note: "updfar"})
			case "del":
				if len(liveIdx) == 0 {
					continue
				}
				si := liveIdx[rapid.IntRange(0, len(liveIdx)-1).Draw(t, "si")]
				gs[si].live = false
				ops = append(ops, model.Op{Kind: "del", Peer: 0, Seq: seq, Sess: si})
			}
		}
		return model.Case{Conf: map[string]any{"variant": v}, Ops: ops}
	}
}

func runC09UP4(c model.Case, ev *Ev) error {
	v := variantOf(c)
	r, err := up4RigFresh(v)
	if err != nil {
		return fmt.Errorf("INFRA: %v", err)
	}
	run, err := r.newRunner(peersOf(c))
	if err != nil {
		return fmt.Errorf("INFRA: %v", err)
	}
	defer run.Close()
	env := up4Env(v)
	nUpd, twoQ := 0, false
	for i, op := range c.Ops {
		o := run.Exec(op)
		if o.NoResp || !o.Alive {
			return fmt.Errorf("op %d (%s): no response", i, op.Kind)
		}
		if op.Kind == "assoc" {
			if !o.Accepted {
				return fmt.Errorf("INFRA: association rejected (datapath not connected?)")
			}
			continue
		}
		if !o.Accepted {
			return fmt.Errorf("op %d: %s %s inside the UP4 envelope rejected with cause %d\n%s", i, op.Kind, op.Note, o.Cause, p4Diag(r, o.CmdFrom))
		}
		if len(op.UpdQERs) > 0 {
			nUpd++
		}
		if len(op.QERs) == 2 {
			twoQ = true
		}
		if _, err := run.CheckUP4Image(r.P4.Snap(), env, sim.UP4Opts{Meters: true, Rates: true}); err != nil {
			return fmt.Errorf("after op %d (%s %s): %w\n%s", i, op.Kind, op.Note, err, p4Diag(r, o.CmdFrom))
		}
		ev.Label(op.Kind + "/" + op.Note)
	}
	ev.Case(c, twoQ && nUpd >= 1, len(c.Ops))
	return nil
}

func TestC09UP4(t *testing.T) {
	ev := newEv("C09")
	ev.Rule = "UP4: histories of establishments with QER shapes none / [application] / [application, session] (40-bit MBRs incl. boundaries, both gates, QFI 0-63, three QFI->TC configurations), Update QER with new rates / gates / QFI, Update FAR and deletion on a fresh agent and harness switch; after every accepted request, for every forwarding terminations entry the meter cells on its path (application cell named by the entry, session cell named by the sessions entry) must limit at exactly MBR x 125 bytes/s of the PDR's QERs for that direction with a burst of at least rate x 10 ms, gates -> drop and QFI -> traffic class as in the image oracle; non-trivial = a session with two QERs and at least one Update QER; distinct by case"
	ev.Assume = []string{"P4 meters are compared as configured at the harness switch (MeterEntry of the last MODIFY per cell); cell 0 and unconfigured cells mean no limit"}
	runProp(t, ev, "up4qos", true, genC09UP4(ev), runC09UP4)
}

func init() {
	registerFns = append(registerFns, func() { registerReplay("C09", "up4qos", runC09UP4) })
}
