package props

import (
	"fmt"
	"net"
	"testing"
	"time"

	"github.com/google/gopacket"
	"github.com/google/gopacket/layers"
	"pgregory.net/rapid"

	"verif/harness/model"
	"verif/harness/rig"
)

// ---------- C14: end markers go to the old tunnel, once ----------

type endMarker struct {
	Src, Dst     string
	SPort, DPort uint16
	TEID         uint32
	MsgType      uint8
	Seq          int64
}

func decodeEndMarker(b []byte) (endMarker, error) {
	var em endMarker
	p := gopacket.NewPacket(b, layers.LayerTypeEthernet, gopacket.Default)
	ip, _ := p.Layer(layers.LayerTypeIPv4).(*layers.IPv4)
	udp, _ := p.Layer(layers.LayerTypeUDP).(*layers.UDP)
	gtp, _ := p.Layer(layers.LayerTypeGTPv1U).(*layers.GTPv1U)
	if ip == nil || udp == nil || gtp == nil {
		return em, fmt.Errorf("packet does not decode as Ethernet/IPv4/UDP/GTPv1-U: %x", b)
	}
	em.Src, em.Dst = ip.SrcIP.String(), ip.DstIP.String()
	em.SPort, em.DPort = uint16(udp.SrcPort), uint16(udp.DstPort)
	em.TEID, em.MsgType = gtp.TEID, gtp.MessageType
	return em, nil
}

type tunnel struct {
	Peer string
	TEID uint32
}

func genC14(ev *Ev) func(t *rapid.T) model.Case {
	return func(t *rapid.T) model.Case {
		enabled := rapid.IntRange(0, 4).Draw(t, "enabled") != 0
		ops := []model.Op{opAssoc(0, 1)}
		nSess := rapid.IntRange(1, 2).Draw(t, "nsess")
		type gs struct{ fars []model.FAR }
		var gss []*gs
		seq := uint32(10)
		for si := 0; si < nSess; si++ {
			c := mkSessCtx(t, si, 0)
			nDL := rapid.IntRange(1, 3).Draw(t, "ndl")
			op := model.Op{Kind: "est", Peer: 0, Seq: seq, Sess: si, CPSEID: uint64(300 + si)}
			seq++
			g := &gs{}
			op.FARs = append(op.FARs, model.FAR{ID: 1, Action: model.ActFORW, HasFwd: true, DstIf: model.IfCore})
			op.PDRs = append(op.PDRs, model.PDR{ID: 1, Prec: 10, Src: "access", FTEID: true, TEID: c.teidUL, N3: accessIP(), OHR: true, FAR: 1})
			for k := 0; k < nDL; k++ {
				f := genDLFAR(t, ruleKnobs{buffer: rapid.IntRange(0, 3).Draw(t, "buf") == 0}, c, uint32(10+k))
				op.FARs = append(op.FARs, f)
				sdf := ""
				if k > 0 {
					sdf = fmt.Sprintf("permit out udp from 8.8.%d.0/24 to assigned", k)
				}
				op.PDRs = append(op.PDRs, model.PDR{ID: uint16(10 + k), Prec: uint32(10 + k), Src: "core", HasUE: true, UEIP: c.ue, FAR: f.ID, SDF: sdf})
			}
			g.fars = op.FARs
			gss = append(gss, g)
			ops = append(ops, op)
		}
		nMods := rapid.IntRange(1, scale(6, 10)).Draw(t, "nmods")
		for m := 0; m < nMods; m++ {
			si := rapid.IntRange(0, nSess-1).Draw(t, "msess")
			g := gss[si]
			op := model.Op{Kind: "mod", Peer: 0, Seq: seq, Sess: si}
			seq++
			nUpd := rapid.IntRange(1, 3).Draw(t, "nupd")
			used := map[uint32]bool{}
			for u := 0; u < nUpd; u++ {
				if rapid.IntRange(0, 6).Draw(t, "unknown?") == 0 {
					// Update FAR naming an unknown FAR: the update fails, nothing may be emitted for it
					op.UpdFARs = append(op.UpdFARs, model.FAR{ID: uint32(900 + u), Action: model.ActFORW, HasFwd: true, DstIf: model.IfAccess, HasOHC: true, TEID: 5, Peer: "198.18.9.9", EndMarker: true})
					continue
				}
				i := 1 + rapid.IntRange(0, len(g.fars)-2).Draw(t, "fi")
				if used[g.fars[i].ID] {
					continue
				}
				used[g.fars[i].ID] = true
				nf := model.FAR{ID: g.fars[i].ID, Action: model.ActFORW, HasFwd: true, DstIf: model.IfAccess, HasOHC: true,
					TEID: uint32(rapid.IntRange(1, 1<<30).Draw(t, "nteid")), Peer: fmt.Sprintf("198.18.%d.%d", 3+rapid.IntRange(0, 3).Draw(t, "pn"), rapid.IntRange(2, 9).Draw(t, "ph"))}
				switch rapid.IntRange(0, 5).Draw(t, "shape") {
				case 0:
					nf = model.FAR{ID: nf.ID, Action: model.ActBUFF | model.ActNOCP, HasFwd: true}
				case 1:
					nf = model.FAR{ID: nf.ID, Action: model.ActDROP, HasFwd: true}
				}
				switch rapid.IntRange(0, 3).Draw(t, "flag") {
				case 0:
				case 1:
					nf.HasSMReq = true // flags IE present, SNDEM clear
				default:
					nf.EndMarker = true
				}
				op.UpdFARs = append(op.UpdFARs, nf)
				g.fars[i] = nf
			}
			if rapid.IntRange(0, 5).Draw(t, "create?") == 0 {
				// a flagged Create FAR must not emit anything
				id := uint32(50 + m)
				cf := model.FAR{ID: id, Action: model.ActFORW, HasFwd: true, DstIf: model.IfAccess, HasOHC: true, TEID: 77, Peer: "198.18.8.8", EndMarker: true}
				op.FARs = append(op.FARs, cf)
				g.fars = append(g.fars, cf)
			}
			if len(op.UpdFARs)+len(op.FARs) > 0 {
				ops = append(ops, op)
			}
		}
		return model.Case{Conf: map[string]any{"endmarker": enabled}, Ops: ops}
	}
}

func runC14(c model.Case, ev *Ev) error {
	enabled, _ := c.Conf["endmarker"].(bool)
	key := "bess-em"
	if !enabled {
		key = "bess-noalloc"
	}
	r, err := sharedRig(key, RigOpts{EndMarker: enabled})
	if err != nil {
		return fmt.Errorf("INFRA: %v", err)
	}
	if enabled && !r.EndM.WaitConn(5*time.Second) {
		return fmt.Errorf("INFRA: agent never connected to the end-marker socket")
	}
	cleanStart(r, ev)
	run, err := r.newRunner(1)
	if err != nil {
		return fmt.Errorf("INFRA: %v", err)
	}
	defer cleanup(run)
	acc := accessIP()
	nontriv := false
	changed := map[string]bool{}
	pktBase := 0
	if r.EndM != nil {
		pktBase = r.EndM.Len()
	}
	for i, op := range c.Ops {
		// tunnels before the update
		before := map[uint32]model.FAR{}
		if s := run.Sess[op.Sess]; s != nil && op.Kind == "mod" {
			for _, f := range s.FARs {
				before[f.ID] = f
			}
		}
		o := run.Exec(op)
		if o.NoResp || !o.Alive {
			return fmt.Errorf("op %d (%s): no response (alive=%v)", i, op.Kind, o.Alive)
		}
		if op.Kind != "mod" {
			continue
		}
		if !o.Accepted {
			return fmt.Errorf("op %d: modification inside the envelope rejected (cause %d)", i, o.Cause)
		}
		// expected end markers of this message
		var want []tunnel
		optional := 0
		flagged, total := 0, 0
		for _, u := range op.UpdFARs {
			total++
			old, known := before[u.ID]
			if !u.EndMarker || !known || !enabled {
				continue
			}
			flagged++
			if old.Action&model.ActFORW != 0 && old.HasOHC {
				want = append(want, tunnel{old.Peer, old.TEID})
			} else {
				optional++ // the rule had no tunnel before: nothing is asserted
			}
		}
		if total >= 2 && flagged >= 1 && flagged < total && len(changed) > 0 {
			nontriv = true
		}
		for _, u := range op.UpdFARs {
			if _, known := before[u.ID]; known {
				changed[fmt.Sprint(op.Sess, u.ID)] = true
			}
		}
		var got []rig.UnixPkt
		if r.EndM != nil {
			deadline := time.Now().Add(3 * time.Second)
			for time.Now().Before(deadline) && r.EndM.Len()-pktBase < len(want) {
				time.Sleep(200 * time.Microsecond)
			}
			time.Sleep(2 * time.Millisecond) // grace for surplus packets
			got = r.EndM.Since(pktBase)
			pktBase += len(got)
		}
		if len(got) < len(want) || len(got) > len(want)+optional {
			return fmt.Errorf("op %d: %d end marker(s) emitted, want %d (+%d optional) for updates %+v (end markers enabled=%v)", i, len(got), len(want), optional, op.UpdFARs, enabled)
		}
		// the new rule must have been programmed before the marker left
		lastAdd := map[string]int64{}
		for _, cm := range r.B.LogSince(o.CmdFrom) {
			if cm.Module == "farLookup" && cm.Cmd == "add" {
				lastAdd[cm.Key] = cm.Seq
			}
		}
		remaining := append([]tunnel(nil), want...)
		for _, pk := range got {
			em, err := decodeEndMarker(pk.B)
			if err != nil {
				return fmt.Errorf("op %d: %v", i, err)
			}
			if em.MsgType != 254 {
				return fmt.Errorf("op %d: GTP-U message type %d, want End Marker (254)", i, em.MsgType)
			}
			if em.SPort != 2152 || em.DPort != 2152 {
				return fmt.Errorf("op %d: end marker UDP ports %d->%d, want 2152", i, em.SPort, em.DPort)
			}
			idx := -1
			for k, w := range remaining {
				if net.ParseIP(w.Peer).Equal(net.ParseIP(em.Dst)) && w.TEID == em.TEID {
					idx = k
					break
				}
			}
			if idx < 0 {
				if optional > 0 {
					optional--
					continue
				}
				return fmt.Errorf("op %d: end marker to %s teid %d matches no tunnel that a flagged rule used before the update (want one of %+v)", i, em.Dst, em.TEID, want)
			}
			remaining = append(remaining[:idx], remaining[idx+1:]...)
			if em.Src != acc {
				return fmt.Errorf("op %d: end marker sourced from %s, want the UPF access address %s", i, em.Src, acc)
			}
			s := run.Sess[op.Sess]
			for _, u := range op.UpdFARs {
				if old, ok := before[u.ID]; ok && u.EndMarker && old.TEID == em.TEID && old.Peer == em.Dst {
					k := fmt.Sprint(u.ID, s.UPSEID)
					if seq, ok := lastAdd[k]; !ok || seq > pk.Seq {
						return fmt.Errorf("op %d: end marker for FAR %d left (event %d) before the updated rule was programmed (farLookup add event %d, present=%v)", i, u.ID, pk.Seq, seq, ok)
					}
				}
			}
		}
		if len(remaining) != 0 {
			return fmt.Errorf("op %d: no end marker for old tunnel(s) %+v", i, remaining)
		}
		ev.Label(fmt.Sprintf("mod/markers=%d", len(want)))
	}
	if r.EndM != nil {
		time.Sleep(20 * time.Millisecond)
		if extra := r.EndM.Since(pktBase); len(extra) != 0 {
			return fmt.Errorf("%d surplus end marker(s) after the last modification", len(extra))
		}
	}
	ev.Case(c, nontriv, len(c.Ops))
	return nil
}

func TestC14(t *testing.T) {
	ev := newEv("C14")
	ev.Rule = "sessions with 1-3 downlink FARs towards generated gNB tunnels, followed by modifications with 1-3 Update FARs each (new tunnel / buffer / drop, SNDEM flag set, clear or absent, unknown FAR IDs, flagged Create FAR), with end markers enabled (harness unixpacket listener in place of BESS' pfcpPort) and disabled; every packet is decoded with gopacket; non-trivial = message with >=2 updated FARs of which some but not all are flagged, after at least one earlier tunnel change; distinct by case"
	ev.Assume = []string{"a flagged update of a rule that had no tunnel before (buffering/dropping FAR) may or may not emit a marker: not asserted"}
	runProp(t, ev, "markers", true, genC14(ev), runC14)
}

func init() {
	registerFns = append(registerFns, func() { registerReplay("C14", "markers", runC14) })
}
