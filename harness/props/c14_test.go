package props

import (
	"fmt"
	"net"
	"testing"
	"time"

	"github.com/google/gopacket"
	"github.com/google/gopacket/layers"
	"pgregory.net/rapid"

	"verif/harness/model"
	"verif/harness/rig"
)

// ---------- C14: end markers go to the old tunnel, once ----------

type endMarker struct {
	Src, Dst     string
	SPort, DPort uint16
	TEID         uint32
	MsgType      uint8
	Seq          int64
}

func decodeEndMarker(b []byte) (endMarker, error) {
	var em endMarker
	p := gopacket.NewPacket(b, layers.LayerTypeEthernet, gopacket.Default)
	ip, _ := p.Layer(layers.LayerTypeIPv4).(*layers.IPv4)
	udp, _ := p.Layer(layers.LayerTypeUDP).(*layers.UDP)
	gtp, _ := p.Layer(layers.LayerTypeGTPv1U).(*layers.GTPv1U)
	if ip == nil || udp == nil || gtp == nil {
		return em, fmt.Errorf("packet does not decode as Ethernet/IPv4/UDP/GTPv1-U: %x", b)
	}
	em.Src, em.Dst = ip.SrcIP.String(), ip.DstIP.String()
	em.SPort, em.DPort = uint16(udp.SrcPort), uint16(udp.DstPort)
	em.TEID, em.MsgType = gtp.TEID, gtp.MessageType
	return em, nil
}

type tunnel struct {
	Peer string
	TEID uint32
}

func genC14(ev *Ev) func(t *rapid.T) model.Case {
	return func(t *rapid.T) model.Case {
		enabled := rapid.IntRange(0, 4).Draw(t, "enabled") != 0
		// every third case runs on UP4, where markers leave as P4Runtime PacketOut; the UP4 plug-in supports
		// one downlink FAR per session
		up4 := rapid.IntRange(0, 2).Draw(t, "up4") == 0
		ops := []model.Op{opAssoc(0, 1)}
		nSess := rapid.IntRange(1, 2).Draw(t, "nsess")
		type gs struct{ fars []model.FAR }
		var gss []*gs
		seq := uint32(10)
		for si := 0; si < nSess; si++ {
			c := mkSessCtx(t, si, 0)
			nDL := rapid.IntRange(1, 3).Draw(t, "ndl")
			if up4 {
				nDL = 1
			}
			op := model.Op{Kind: "est", Peer: 0, Seq: seq, Sess: si, CPSEID: uint64(300 + si)}
			seq++
			g := &gs{}
			op.FARs = append(op.FARs, model.FAR{ID: 1, Action: model.ActFORW, HasFwd: true, DstIf: model.IfCore})
			op.PDRs = append(op.PDRs, model.PDR{ID: 1, Prec: 10, Src: "access", FTEID: true, TEID: c.teidUL, N3: accessIP(), OHR: true, FAR: 1})
			// the downlink rules of one PDU session usually share its N3 tunnel (one rule per QoS flow)
			shareTun := rapid.Bool().Draw(t, "sharetun")
			var first *model.FAR
			for k := 0; k < nDL; k++ {
				f := genDLFAR(t, ruleKnobs{buffer: rapid.IntRange(0, 3).Draw(t, "buf") == 0}, c, uint32(10+k))
				if f.HasOHC && shareTun {
					if first == nil {
						ff := f
						first = &ff
					} else {
						f.TEID, f.Peer = first.TEID, first.Peer
					}
				}
				op.FARs = append(op.FARs, f)
				sdf := ""
				if k > 0 {
					sdf = fmt.Sprintf("permit out udp from 8.8.%d.0/24 to assigned", k)
				}
				op.PDRs = append(op.PDRs, model.PDR{ID: uint16(10 + k), Prec: uint32(10 + k), Src: "core", HasUE: true, UEIP: c.ue, FAR: f.ID, SDF: sdf})
			}
			g.fars = op.FARs
			gss = append(gss, g)
			ops = append(ops, op)
		}
		lastMod := map[int]*model.Op{}
		nMods := rapid.IntRange(1, scale(6, 10)).Draw(t, "nmods")
		for m := 0; m < nMods; m++ {
			si := rapid.IntRange(0, nSess-1).Draw(t, "msess")
			g := gss[si]
			op := model.Op{Kind: "mod", Peer: 0, Seq: seq, Sess: si}
			seq++
			if prev := lastMod[si]; prev != nil && rapid.IntRange(0, 5).Draw(t, "again") == 0 {
				// the control plane sends the same Update FARs once more (a retry whose first answer it lost, or a
				// path switch back and forth that ends where it began): every flagged rule that has a tunnel is
				// due a marker again - to the tunnel it used before this update, which is the one it states
				op.UpdFARs = append([]model.FAR(nil), prev.UpdFARs...)
				op.Note = "again"
				ops = append(ops, op)
				continue
			}
			nUpd := rapid.IntRange(1, 3).Draw(t, "nupd")
			used := map[uint32]bool{}
			// a handover moves every rule of the session to the same new tunnel
			handover := rapid.Bool().Draw(t, "handover")
			hoTEID := uint32(rapid.IntRange(1, 1<<30).Draw(t, "hoteid"))
			hoPeer := fmt.Sprintf("198.18.%d.%d", 3+rapid.IntRange(0, 3).Draw(t, "hopn"), rapid.IntRange(2, 9).Draw(t, "hoph"))
			for u := 0; u < nUpd; u++ {
				if rapid.IntRange(0, 6).Draw(t, "unknown?") == 0 {
					// Update FAR naming an unknown FAR: the update fails, nothing may be emitted for it
					op.UpdFARs = append(op.UpdFARs, model.FAR{ID: uint32(900 + u), Action: model.ActFORW, HasFwd: true, DstIf: model.IfAccess, HasOHC: true, TEID: 5, Peer: "198.18.9.9", EndMarker: true})
					continue
				}
				i := 1 + rapid.IntRange(0, len(g.fars)-2).Draw(t, "fi")
				if used[g.fars[i].ID] {
					continue
				}
				used[g.fars[i].ID] = true
				nf := model.FAR{ID: g.fars[i].ID, Action: model.ActFORW, HasFwd: true, DstIf: model.IfAccess, HasOHC: true,
					TEID: uint32(rapid.IntRange(1, 1<<30).Draw(t, "nteid")), Peer: fmt.Sprintf("198.18.%d.%d", 3+rapid.IntRange(0, 3).Draw(t, "pn"), rapid.IntRange(2, 9).Draw(t, "ph"))}
				if handover {
					nf.TEID, nf.Peer = hoTEID, hoPeer
				}
				switch rapid.IntRange(0, 5).Draw(t, "shape") {
				case 0:
					nf = model.FAR{ID: nf.ID, Action: model.ActBUFF | model.ActNOCP, HasFwd: true}
				case 1:
					nf = model.FAR{ID: nf.ID, Action: model.ActDROP, HasFwd: true}
				case 2:
					// the rule stops forwarding but the control plane keeps stating its tunnel (Outer Header
					// Creation rides along): the rule still has tunnel parameters when it is updated next
					nf.Action = rapid.SampledFrom([]uint8{model.ActBUFF | model.ActNOCP, model.ActBUFF, model.ActDROP}).Draw(t, "idleaction")
				}
				switch rapid.IntRange(0, 3).Draw(t, "flag") {
				case 0:
				case 1:
					nf.HasSMReq = true // flags IE present, SNDEM clear
				default:
					nf.EndMarker = true
				}
				if nf.HasSMReq || nf.EndMarker {
					// the other bits of the octet (DROBU, QAURR) ride along
					nf.SMExtra = rapid.SampledFrom([]uint8{0, 0, 0x01, 0x04, 0x05}).Draw(t, "smextra")
				}
				op.UpdFARs = append(op.UpdFARs, nf)
				g.fars[i] = nf
			}
			if !up4 && rapid.IntRange(0, 5).Draw(t, "create?") == 0 {
				// a flagged Create FAR must not emit anything
				id := uint32(50 + m)
				cf := model.FAR{ID: id, Action: model.ActFORW, HasFwd: true, DstIf: model.IfAccess, HasOHC: true, TEID: 77, Peer: "198.18.8.8", EndMarker: true}
				op.FARs = append(op.FARs, cf)
				g.fars = append(g.fars, cf)
			}
			if len(op.UpdFARs)+len(op.FARs) > 0 {
				if up4 && rapid.IntRange(0, 3).Draw(t, "p4break") == 0 {
					// the P4Runtime channel breaks (the switch keeps its state) and the agent reconnects with
					// the next request: markers must leave on the new channel
					ops = append(ops, model.Op{Kind: "p4break"})
				}
				ops = append(ops, op)
				if len(op.FARs) == 0 {
					cp := op
					lastMod[si] = &cp
				} else {
					delete(lastMod, si) // a Create FAR cannot be sent twice
				}
			}
		}
		return model.Case{Conf: map[string]any{"endmarker": enabled, "up4": up4}, Ops: ops}
	}
}

func runC14(c model.Case, ev *Ev) error {
	enabled, _ := c.Conf["endmarker"].(bool)
	up4, _ := c.Conf["up4"].(bool)
	key := "bess-em"
	if !enabled {
		key = "bess-noalloc"
	}
	var r *Rig
	var err error
	if up4 {
		r, err = newRig(RigOpts{UP4: true, EndMarker: enabled})
	} else {
		r, err = sharedRig(key, RigOpts{EndMarker: enabled})
	}
	if err != nil {
		return fmt.Errorf("INFRA: %v", err)
	}
	if !up4 && enabled && !r.EndM.WaitConn(5*time.Second) {
		return fmt.Errorf("INFRA: agent never connected to the end-marker socket")
	}
	cleanStart(r, ev)
	// markers: the unixpacket listener on BESS, PacketOut messages on the switch's stream on UP4
	pktLen := func() int {
		if up4 {
			return r.P4.PktLen()
		}
		if r.EndM != nil {
			return r.EndM.Len()
		}
		return 0
	}
	pktSince := func(i int) []rig.UnixPkt {
		if up4 {
			var out []rig.UnixPkt
			for _, p := range r.P4.PktSince(i) {
				out = append(out, rig.UnixPkt{B: p.B, Seq: p.Seq})
			}
			return out
		}
		if r.EndM != nil {
			return r.EndM.Since(i)
		}
		return nil
	}
	run, err := r.newRunner(1)
	if err != nil {
		return fmt.Errorf("INFRA: %v", err)
	}
	defer cleanup(run)
	acc := accessIP()
	nontriv := false
	changed := map[string]bool{}
	pktBase := pktLen()
	breaks := 0
	justBroke := false
	carry := 0 // optional markers of earlier modifications that may still arrive
	for i, op := range c.Ops {
		// tunnels before the update
		before := map[uint32]model.FAR{}
		if s := run.Sess[op.Sess]; s != nil && op.Kind == "mod" {
			for _, f := range s.FARs {
				before[f.ID] = f
			}
		}
		if op.Kind == "p4break" {
			if up4 {
				r.P4.Stop()
				time.Sleep(10 * time.Millisecond)
				if err := r.P4.Restart(); err != nil {
					return fmt.Errorf("INFRA: switch restart: %v", err)
				}
				breaks++
				justBroke = true
			}
			continue
		}
		o := run.Exec(op)
		if o.NoResp || !o.Alive {
			return fmt.Errorf("op %d (%s): no response (alive=%v)", i, op.Kind, o.Alive)
		}
		if op.Kind != "mod" {
			continue
		}
		if !o.Accepted && up4 && justBroke {
			// a request after a channel break may find the agent still believing in the dead channel: the write
			// fails and the request is refused - a failed update, which must emit nothing. (While gRPC has re-dialled
			// the connection underneath but the agent has not opened a new stream, the switch keeps refusing its
			// writes - it is not the primary - so this can last until the first accepted modification.)
			time.Sleep(20 * time.Millisecond)
			if extra := pktSince(pktBase); len(extra) > carry {
				return fmt.Errorf("op %d: the modification was refused (cause %d) right after a channel break, yet %d end marker(s) were emitted", i, o.Cause, len(extra)-carry)
			}
			ev.Label("mod/refused-after-channel-break")
			continue
		}
		justBroke = false
		if !o.Accepted {
			return fmt.Errorf("op %d: modification inside the envelope rejected (cause %d)", i, o.Cause)
		}
		// expected end markers of this message
		var want []tunnel
		optional := 0
		flagged, total := 0, 0
		for _, u := range op.UpdFARs {
			total++
			old, known := before[u.ID]
			if !u.EndMarker || !known || !enabled {
				continue
			}
			flagged++
			// A rule has tunnel parameters if it was created forwarding with an Outer Header Creation, or if its last
			// update carried one - whatever action that update gave it. (Forwarding Parameters of a rule created
			// with another action are not part of the rule, TS 29.244 table 7.5.2.3-1.)
			if old.HasOHC && (old.Action&model.ActFORW != 0 || changed[fmt.Sprint(op.Sess, u.ID)]) {
				// the tunnel the rule had before the update, whether or not it was forwarding at that moment
				want = append(want, tunnel{old.Peer, old.TEID})
				if old.Action&model.ActFORW == 0 {
					ev.Label("marker-for-idle-rule-with-tunnel")
				}
			} else {
				optional++ // the rule had no tunnel before: nothing is asserted
			}
		}
		if total >= 2 && flagged >= 1 && flagged < total && len(changed) > 0 {
			nontriv = true
		}
		for _, u := range op.UpdFARs {
			if _, known := before[u.ID]; known {
				changed[fmt.Sprint(op.Sess, u.ID)] = true
			}
		}
		var got []rig.UnixPkt
		if up4 || r.EndM != nil {
			deadline := time.Now().Add(3 * time.Second)
			for time.Now().Before(deadline) && pktLen()-pktBase < len(want) {
				time.Sleep(200 * time.Microsecond)
			}
			time.Sleep(2 * time.Millisecond) // grace for surplus packets
			// markers that may or may not be emitted get time to arrive, so that they are not counted for
			// the next modification; what still has not come is carried over as allowance
			optional += carry
			for w := time.Now().Add(150 * time.Millisecond); optional > 0 && time.Now().Before(w) && pktLen()-pktBase < len(want)+optional; {
				time.Sleep(500 * time.Microsecond)
			}
			got = pktSince(pktBase)
			pktBase += len(got)
		}
		carry = 0
		if n := len(want) + optional - len(got); n > 0 && n <= optional {
			carry = n
		}
		if len(got) < len(want) || len(got) > len(want)+optional {
			return fmt.Errorf("op %d: %d end marker(s) emitted, want %d (+%d optional) for updates %+v (end markers enabled=%v)", i, len(got), len(want), optional, op.UpdFARs, enabled)
		}
		// the new rule must have been programmed before the marker left
		lastAdd := map[string]int64{}
		var lastWrite int64
		if up4 {
			for _, w := range r.P4.LogSince(o.CmdFrom) {
				lastWrite = w.Seq
			}
		} else {
			for _, cm := range r.B.LogSince(o.CmdFrom) {
				if cm.Module == "farLookup" && cm.Cmd == "add" {
					lastAdd[cm.Key] = cm.Seq
				}
			}
		}
		remaining := append([]tunnel(nil), want...)
		for _, pk := range got {
			em, err := decodeEndMarker(pk.B)
			if err != nil {
				return fmt.Errorf("op %d: %v", i, err)
			}
			if em.MsgType != 254 {
				return fmt.Errorf("op %d: GTP-U message type %d, want End Marker (254)", i, em.MsgType)
			}
			if em.SPort != 2152 || em.DPort != 2152 {
				return fmt.Errorf("op %d: end marker UDP ports %d->%d, want 2152", i, em.SPort, em.DPort)
			}
			idx := -1
			for k, w := range remaining {
				if net.ParseIP(w.Peer).Equal(net.ParseIP(em.Dst)) && w.TEID == em.TEID {
					idx = k
					break
				}
			}
			if idx < 0 {
				if optional > 0 {
					optional--
					continue
				}
				return fmt.Errorf("op %d: end marker to %s teid %d matches no tunnel that a flagged rule used before the update (want one of %+v)", i, em.Dst, em.TEID, want)
			}
			remaining = append(remaining[:idx], remaining[idx+1:]...)
			if em.Src != acc {
				return fmt.Errorf("op %d: end marker sourced from %s, want the UPF access address %s", i, em.Src, acc)
			}
			s := run.Sess[op.Sess]
			for _, u := range op.UpdFARs {
				if old, ok := before[u.ID]; ok && u.EndMarker && old.TEID == em.TEID && old.Peer == em.Dst {
					if up4 {
						if lastWrite == 0 || lastWrite > pk.Seq {
							return fmt.Errorf("op %d: end marker for FAR %d left (event %d) before the switch was written (last Write of the modification: event %d)", i, u.ID, pk.Seq, lastWrite)
						}
						continue
					}
					k := fmt.Sprint(u.ID, s.UPSEID)
					if seq, ok := lastAdd[k]; !ok || seq > pk.Seq {
						return fmt.Errorf("op %d: end marker for FAR %d left (event %d) before the updated rule was programmed (farLookup add event %d, present=%v)", i, u.ID, pk.Seq, seq, ok)
					}
				}
			}
		}
		if len(remaining) != 0 {
			return fmt.Errorf("op %d: no end marker for old tunnel(s) %+v", i, remaining)
		}
		ev.Label(fmt.Sprintf("mod/markers=%d", len(want)))
	}
	if up4 || r.EndM != nil {
		time.Sleep(20 * time.Millisecond)
		if extra := pktSince(pktBase); len(extra) != 0 {
			return fmt.Errorf("%d surplus end marker(s) after the last modification", len(extra))
		}
	}
	ev.Label(fmt.Sprintf("up4=%v/enabled=%v/channel-breaks=%v", up4, enabled, breaks > 0))
	ev.Case(c, nontriv, len(c.Ops))
	return nil
}

func TestC14(t *testing.T) {
	ev := newEv("C14")
	ev.Rule = "sessions with 1-3 downlink FARs towards generated gNB tunnels, followed by modifications with 1-3 Update FARs each (new tunnel / buffer / drop, SNDEM flag set, clear or absent, unknown FAR IDs, flagged Create FAR), with end markers enabled and disabled, on BESS (harness unixpacket listener in place of BESS' pfcpPort) and on UP4 (every third case, one downlink FAR per session; markers captured as PacketOut on the harness switch's stream, after the modification's last Write; before a quarter of the modifications the P4Runtime channel breaks - the switch keeps its state - and the agent reconnects with the request); every packet is decoded with gopacket; non-trivial = message with >=2 updated FARs of which some but not all are flagged, after at least one earlier tunnel change; distinct by case"
	ev.Assume = []string{"a flagged update of a rule that had no tunnel before (buffering/dropping FAR) may or may not emit a marker: not asserted"}
	runProp(t, ev, "markers", true, genC14(ev), runC14)
}

func init() {
	registerFns = append(registerFns, func() { registerReplay("C14", "markers", runC14) })
}
