package props

import (
	"bytes"
	"encoding/hex"
	"fmt"
	"net"
	"strings"
	"testing"
	"time"

	"github.com/omec-project/upf-epc/pfcpiface"
	"github.com/wmnsk/go-pfcp/ie"
	"github.com/wmnsk/go-pfcp/message"
	"pgregory.net/rapid"

	"verif/harness/model"
	"verif/harness/sim"
)

// ---------- C01: no PFCP datagram can crash or wedge the agent ----------

type mutDesc struct {
	Op   string `json:"op"`
	IE   uint16 `json:"ie,omitempty"`
	Path []int  `json:"path,omitempty"`
	Arg  string `json:"arg,omitempty"`
}

var leafTypes = []uint16{19, 20, 21, 22, 23, 24, 26, 25, 27, 28, 29, 44, 49, 56, 57, 60, 61, 84, 93, 95, 96, 108, 109, 124, 42, 43, 89, 39}

func v6Payload(t uint16) []byte {
	v6 := net.ParseIP("2001:db8::1").To16()
	switch t {
	case 60: // Node ID
		return append([]byte{1}, v6...)
	case 57: // F-SEID
		return append([]byte{0x01, 0, 0, 0, 0, 0, 0, 0, 9}, v6...)
	case 21: // F-TEID
		return append([]byte{0x02, 0, 0, 0, 7}, v6...)
	case 84: // Outer Header Creation GTP-U/UDP/IPv6
		return append([]byte{0x02, 0x00, 0, 0, 0, 7}, v6...)
	case 93: // UE IP Address
		return append([]byte{0x01}, v6...)
	}
	return nil
}

func mutateFD(t *rapid.T, fd string) string {
	toks := strings.Fields(fd)
	if len(toks) == 0 {
		toks = []string{"permit", "out", "ip", "from", "any", "to", "assigned"}
	}
	switch rapid.IntRange(0, 9).Draw(t, "fdop") {
	case 0: // cut after any token
		k := rapid.IntRange(0, len(toks)).Draw(t, "cut")
		return strings.Join(toks[:k], " ")
	case 1: // garbage token
		k := rapid.IntRange(0, len(toks)-1).Draw(t, "pos")
		toks[k] = rapid.SampledFrom([]string{"xyz", "-", "/", "1.2.3", "300.1.1.1/8", "1.1.1.1/33", "99999", "80-", "-80", "a-b", "::1", "from", "to", ""}).Draw(t, "tok")
		return strings.Join(toks, " ")
	case 2: // inverted range appended
		return strings.Join(toks, " ") + " 90-80"
	case 3: // drop one token
		k := rapid.IntRange(0, len(toks)-1).Draw(t, "pos")
		return strings.Join(append(append([]string{}, toks[:k]...), toks[k+1:]...), " ")
	case 4: // duplicate one token
		k := rapid.IntRange(0, len(toks)-1).Draw(t, "pos")
		return strings.Join(append(append(append([]string{}, toks[:k+1]...), toks[k]), toks[k+1:]...), " ")
	case 5:
		return rapid.SampledFrom([]string{"permit out ip from", "permit out ip from any", "permit out ip from any to", "permit out ip",
			"permit out ip to any", "permit out ip from any 80 to", "permit out ip from any to assigned 80 90", "permit", "", " ", "permit out ip from any to any to",
			"permit out ip from to", "deny in 300 from any to any", "permit out ip from any from", "permit out ip to"}).Draw(t, "canned")
	case 6: // swap two tokens
		if len(toks) >= 2 {
			a := rapid.IntRange(0, len(toks)-1).Draw(t, "a")
			b := rapid.IntRange(0, len(toks)-1).Draw(t, "b")
			toks[a], toks[b] = toks[b], toks[a]
		}
		return strings.Join(toks, " ")
	case 7: // only from / only to endings
		return "permit out ip from any " + rapid.SampledFrom([]string{"to", "from", "80", "80 to"}).Draw(t, "tail")
	case 8: // random printable
		return rapid.StringMatching(`[a-z0-9 ./\-]{0,40}`).Draw(t, "rnd")
	default:
		return strings.Join(toks, "  ") + " "
	}
}

func sdfPayload(fd string) []byte { return ie.NewSDFFilter(fd, "", "", "", 1).Payload }
func pfdPayload(fd string) []byte {
	return ie.NewPFDContents(fd, "", "", "", "", nil, nil, nil).Payload
}

// applyMut applies one drawn mutation to the message tree and describes it.
func applyMut(t *rapid.T, m *model.Msg) mutDesc {
	paths := model.Paths(m.IEs)
	kind := rapid.SampledFrom([]string{"drop", "dup", "empty", "trunc", "retype", "swap", "unknown", "v6", "choose", "fd", "hdr", "flip", "zero", "fqdn"}).Draw(t, "mut")
	if len(paths) == 0 && kind != "hdr" && kind != "unknown" {
		kind = "hdr"
	}
	d := mutDesc{Op: kind}
	pick := func(filter func(n *model.Node) bool) (*[]*model.Node, int, []int) {
		var cand [][]int
		for _, p := range paths {
			h, i := model.At(&m.IEs, p)
			if h != nil && (filter == nil || filter((*h)[i])) {
				cand = append(cand, p)
			}
		}
		if len(cand) == 0 {
			return nil, 0, nil
		}
		p := cand[rapid.IntRange(0, len(cand)-1).Draw(t, "path")]
		h, i := model.At(&m.IEs, p)
		return h, i, p
	}
	switch kind {
	case "drop":
		h, i, p := pick(nil)
		d.IE, d.Path = (*h)[i].Type, p
		*h = append(append([]*model.Node{}, (*h)[:i]...), (*h)[i+1:]...)
	case "dup":
		h, i, p := pick(nil)
		d.IE, d.Path = (*h)[i].Type, p
		c := (*h)[i].Clone()
		*h = append(append(append([]*model.Node{}, (*h)[:i+1]...), c), (*h)[i+1:]...)
	case "empty":
		h, i, p := pick(nil)
		d.IE, d.Path = (*h)[i].Type, p
		(*h)[i].Payload, (*h)[i].Children = nil, nil
	case "trunc":
		h, i, p := pick(func(n *model.Node) bool { return !n.Grouped && len(n.Payload) > 0 })
		if h == nil {
			d.Op = "none"
			return d
		}
		k := rapid.IntRange(0, len((*h)[i].Payload)-1).Draw(t, "k")
		d.IE, d.Path, d.Arg = (*h)[i].Type, p, fmt.Sprint(k)
		(*h)[i].Payload = (*h)[i].Payload[:k]
	case "zero":
		h, i, p := pick(func(n *model.Node) bool { return !n.Grouped && len(n.Payload) > 0 })
		if h == nil {
			d.Op = "none"
			return d
		}
		d.IE, d.Path = (*h)[i].Type, p
		fill := byte(rapid.SampledFrom([]int{0, 0xff}).Draw(t, "fill"))
		for k := range (*h)[i].Payload {
			(*h)[i].Payload[k] = fill
		}
		d.Arg = fmt.Sprint(fill)
	case "flip":
		h, i, p := pick(func(n *model.Node) bool { return !n.Grouped && len(n.Payload) > 0 })
		if h == nil {
			d.Op = "none"
			return d
		}
		k := rapid.IntRange(0, len((*h)[i].Payload)*8-1).Draw(t, "bit")
		d.IE, d.Path, d.Arg = (*h)[i].Type, p, fmt.Sprint(k)
		(*h)[i].Payload[k/8] ^= 1 << uint(k%8)
	case "retype":
		h, i, p := pick(nil)
		nt := rapid.OneOf(rapid.SampledFrom(leafTypes), rapid.SampledFrom([]uint16{1, 2, 3, 4, 7, 9, 10, 11, 14, 15, 16, 18, 58, 59, 0, 999, 32767, 0x8001})).Draw(t, "newtype")
		d.IE, d.Path, d.Arg = (*h)[i].Type, p, fmt.Sprint(nt)
		n := (*h)[i]
		if n.Grouped {
			// keep the serialised children as payload of the new type
			var pl []byte
			for _, c := range n.Children {
				pl = append(pl, c.Bytes()...)
			}
			n.Grouped, n.Children, n.Payload = false, nil, pl
		}
		n.Type = nt
		if nt&0x8000 != 0 {
			n.Ent = 10415
		}
	case "swap":
		h, i, p := pick(nil)
		d.IE, d.Path = (*h)[i].Type, p
		j := (i + 1) % len(*h)
		(*h)[i], (*h)[j] = (*h)[j], (*h)[i]
	case "unknown":
		n := &model.Node{Type: rapid.SampledFrom([]uint16{999, 32767, 0x8001, 0xffff, 250}).Draw(t, "utype"), Ent: 10415,
			Payload: rapid.SliceOfN(rapid.Byte(), 0, 12).Draw(t, "upayload")}
		d.IE = n.Type
		if len(paths) == 0 || rapid.Bool().Draw(t, "top") {
			k := rapid.IntRange(0, len(m.IEs)).Draw(t, "upos")
			m.IEs = append(append(append([]*model.Node{}, m.IEs[:k]...), n), m.IEs[k:]...)
		} else {
			h, i, p := pick(func(n *model.Node) bool { return n.Grouped })
			if h == nil {
				m.IEs = append(m.IEs, n)
			} else {
				d.Path = p
				(*h)[i].Children = append((*h)[i].Children, n)
			}
		}
	case "fqdn":
		// a Node ID of the FQDN kind: DNS label encoding with well-formed, empty, non-UTF-8, over-long or
		// length-inconsistent labels
		h, i, p := pick(func(n *model.Node) bool { return n.Type == 60 })
		if h == nil {
			d.Op = "none"
			return d
		}
		d.IE, d.Path = (*h)[i].Type, p
		var name []byte
		switch rapid.SampledFrom([]string{"ok", "empty", "nonutf8", "long", "badlen", "nul"}).Draw(t, "fqdnkind") {
		case "ok":
			name = []byte("\x03smf\x07example\x03org")
		case "empty":
		case "nonutf8":
			name = []byte{4, 0xff, 0xfe, 0xc0, 0x80, 3, 'o', 'r', 'g'}
		case "long":
			for k := 0; k < 5; k++ {
				name = append(name, 63)
				name = append(name, bytes.Repeat([]byte{'a'}, 63)...)
			}
		case "badlen":
			name = []byte{40, 'a', 'b'}
		case "nul":
			name = []byte{3, 'a', 0, 'b'}
		}
		(*h)[i].Payload = append([]byte{2}, name...)
		d.Arg = fmt.Sprintf("%x", name)
	case "v6":
		h, i, p := pick(func(n *model.Node) bool { return v6Payload(n.Type) != nil })
		if h == nil {
			d.Op = "none"
			return d
		}
		d.IE, d.Path = (*h)[i].Type, p
		(*h)[i].Payload = v6Payload((*h)[i].Type)
	case "choose":
		h, i, p := pick(func(n *model.Node) bool { return n.Type == 21 || n.Type == 93 })
		if h == nil {
			d.Op = "none"
			return d
		}
		d.IE, d.Path = (*h)[i].Type, p
		if (*h)[i].Type == 21 {
			fl := rapid.SampledFrom([]byte{0x04, 0x05, 0x06, 0x0c, 0x0d, 0x08, 0x00}).Draw(t, "chflags")
			pl := []byte{fl}
			if fl&0x08 != 0 {
				pl = append(pl, 7)
			}
			if rapid.Bool().Draw(t, "withteid") {
				pl = []byte{fl, 0, 0, 0, 9, 198, 18, 0, 1}
			}
			(*h)[i].Payload = pl
			d.Arg = fmt.Sprintf("%#x", fl)
		} else {
			fl := rapid.SampledFrom([]byte{0x10, 0x20, 0x30, 0x12, 0x00, 0x08, 0x40, 0x06}).Draw(t, "ueflags")
			pl := []byte{fl}
			if fl&0x02 != 0 {
				pl = append(pl, 10, 60, 0, 9)
			}
			(*h)[i].Payload = pl
			d.Arg = fmt.Sprintf("%#x", fl)
		}
	case "fd":
		h, i, p := pick(func(n *model.Node) bool { return n.Type == 23 || n.Type == 61 })
		if h == nil {
			d.Op = "none"
			return d
		}
		d.IE, d.Path = (*h)[i].Type, p
		base := "permit out udp from 8.8.8.0/24 80-90 to assigned"
		fd := mutateFD(t, base)
		d.Arg = fd
		if (*h)[i].Type == 23 {
			(*h)[i].Payload = sdfPayload(fd)
		} else {
			(*h)[i].Payload = pfdPayload(fd)
		}
	case "hdr":
		switch rapid.IntRange(0, 5).Draw(t, "hdrop") {
		case 0:
			m.Flags ^= 0x01 // S flag
			d.Arg = "sflag"
		case 1:
			m.LenAdj = rapid.SampledFrom([]int{-1, -4, -8, 1, 4, 1000, -1000}).Draw(t, "lenadj")
			d.Arg = fmt.Sprintf("len%+d", m.LenAdj)
		case 2:
			m.Flags = (m.Flags & 0x1f) | byte(rapid.IntRange(0, 7).Draw(t, "ver"))<<5
			d.Arg = "version"
		case 3:
			m.Flags ^= 0x02 // MP
			d.Arg = "mp"
		case 4:
			m.Type = uint8(rapid.SampledFrom([]int{0, 3, 4, 8, 9, 12, 13, 14, 15, 55, 56, 57, 58, 99, 255}).Draw(t, "mtype"))
			d.Arg = fmt.Sprintf("type%d", m.Type)
		default:
			m.Trailer = rapid.SliceOfN(rapid.Byte(), 1, 9).Draw(t, "trailer")
			d.Arg = "trailer"
		}
	}
	return d
}

// c01Templates builds a well-formed template of every message type for peer 0.
func c01Template(t *rapid.T, kind string, seq uint32, hasSess bool) (raw []byte, patch bool) {
	nid := sim.PeerNodeID(0)
	knobs := ruleKnobs{maxPairs: 2, choose: true, ueAlloc: true, sdf: true, qers: true, buffer: true, sessQER: true, ranges: true, accessN3: accessIP()}
	c := mkSessCtx(t, 7, 0)
	var m message.Message
	switch kind {
	case "hbreq":
		m = model.Heartbeat(seq)
	case "hbresp":
		m = message.NewHeartbeatResponse(seq, ie.NewRecoveryTimeStamp(model.PeerTS))
	case "pfd":
		m = model.PFDMgmt(seq, []model.PFD{{App: "app1", Flows: []string{"permit out ip from 8.8.8.8 to assigned", "permit in udp from 8.8.4.4 53 to assigned"}}, {App: "app2", Flows: []string{"permit out tcp from any 80-90 to assigned"}}})
	case "assocreq":
		m = model.AssocSetup(seq, nid)
	case "assocresp":
		m = message.NewAssociationSetupResponse(seq, model.NodeIDIE(nid), ie.NewCause(ie.CauseRequestAccepted), ie.NewRecoveryTimeStamp(model.PeerTS))
	case "release":
		m = model.AssocRelease(seq, nid)
	case "est":
		op := model.Op{}
		op.PDRs, op.FARs, op.QERs = genRules(t, knobs, c)
		if rapid.Bool().Draw(t, "withapp") {
			op.PDRs[0].AppID, op.PDRs[0].SDF = "app1", ""
		}
		m = model.Establishment(seq, nid, genSEID(t), nid, op)
	case "mod":
		op := model.Op{}
		switch rapid.IntRange(0, 3).Draw(t, "modshape") {
		case 0:
			op.UpdFARs = []model.FAR{{ID: 2, Action: model.ActFORW, HasFwd: true, DstIf: model.IfAccess, HasOHC: true, TEID: 77, Peer: "198.18.9.9", EndMarker: true}}
		case 1:
			op.PDRs, op.FARs, op.QERs = genRules(t, knobs, c)
			for i := range op.PDRs {
				op.PDRs[i].ID += 20
				op.PDRs[i].FAR += 20
			}
			for i := range op.FARs {
				op.FARs[i].ID += 20
			}
			for i := range op.QERs {
				op.QERs[i].ID += 20
			}
		case 2:
			op.RemPDRs, op.RemFARs, op.RemQERs = []uint16{1}, []uint32{1}, []uint32{1}
		case 3:
			p, f, q := genRules(t, knobs, c)
			op.UpdPDRs, op.UpdFARs, op.UpdQERs = p[:1], f[:1], q
			op.UpdFARs[0].HasFwd = true
			op.NewCP, op.NewCPSEID = true, 5
		}
		m = model.Modification(seq, 1, nid, op)
		patch = hasSess
	case "del":
		m = model.Deletion(seq, 1)
		patch = hasSess
	case "represp":
		cause := rapid.SampledFrom([]uint8{ie.CauseRequestAccepted, ie.CauseSessionContextNotFound, ie.CauseRequestRejected, 0, 255}).Draw(t, "cause")
		m = message.NewSessionReportResponse(0, 0, 1, seq, 0, ie.NewCause(cause))
		patch = hasSess
	case "repreq":
		m = message.NewSessionReportRequest(0, 0, 1, seq, 0, ie.NewReportType(0, 0, 0, 1), ie.NewDownlinkDataReport(ie.NewPDRID(1)))
		patch = hasSess
	case "nodereport":
		m = message.NewNodeReportRequest(seq, model.NodeIDIE(nid))
	case "setdel":
		m = message.NewSessionSetDeletionRequest(seq, model.NodeIDIE(nid), nil)
	}
	return model.Marshal(m), patch
}

var c01Kinds = []string{"hbreq", "hbresp", "pfd", "assocreq", "assocresp", "release", "est", "est", "est", "mod", "mod", "del", "represp", "repreq", "nodereport", "setdel"}
var c01Dispatched = map[uint8]bool{1: true, 2: true, 3: true, 5: true, 6: true, 9: true, 50: true, 52: true, 54: true, 57: true}

func canonicalSess(idx int, peer int, seqBase uint32) []model.Op {
	ue := fmt.Sprintf("10.99.%d.%d", peer, idx%250+1)
	pdrs := []model.PDR{
		{ID: 1, Prec: 100, Src: "access", FTEID: true, TEID: uint32(0x7f000000 + idx*4 + peer), N3: accessIP(), OHR: true, FAR: 1, QERs: []uint32{1}},
		{ID: 2, Prec: 100, Src: "core", HasUE: true, UEIP: ue, FAR: 2, QERs: []uint32{1}},
	}
	fars := []model.FAR{
		{ID: 1, Action: model.ActFORW, HasFwd: true, DstIf: model.IfCore},
		{ID: 2, Action: model.ActFORW, HasFwd: true, DstIf: model.IfAccess, HasOHC: true, TEID: 55, Peer: "198.18.5.5"},
	}
	qers := []model.QER{{ID: 1, QFI: 9, MBRUL: 1000, MBRDL: 1000}}
	return []model.Op{
		{Kind: "assoc", Peer: peer, Seq: seqBase},
		{Kind: "est", Peer: peer, Seq: seqBase + 1, Sess: idx, CPSEID: uint64(1000 + idx), PDRs: pdrs, FARs: fars, QERs: qers},
		{Kind: "mod", Peer: peer, Seq: seqBase + 2, Sess: idx, UpdFARs: []model.FAR{{ID: 2, Action: model.ActFORW, HasFwd: true, DstIf: model.IfAccess, HasOHC: true, TEID: 56, Peer: "198.18.5.6"}}},
		{Kind: "del", Peer: peer, Seq: seqBase + 3, Sess: idx},
	}
}

func genC01(t *rapid.T) model.Case {
	state := rapid.SampledFrom([]string{"none", "assoc", "assoc", "sess", "sess", "sess", "modded", "deleted", "released"}).Draw(t, "state")
	conf := map[string]any{"uealloc": rapid.Bool().Draw(t, "uealloc"), "state": state,
		"up4": rapid.IntRange(0, 2).Draw(t, "up4") == 0, "hb": rapid.IntRange(0, 2).Draw(t, "hb") == 0}
	var ops []model.Op
	hasSess := false
	if state != "none" {
		ops = append(ops, opAssoc(0, 10))
		if rapid.Bool().Draw(t, "pfdfirst") {
			ops = append(ops, model.Op{Kind: "pfd", Peer: 0, Seq: 11, PFDs: []model.PFD{{App: "app1", Flows: []string{"permit out ip from 8.8.8.8 to assigned", "permit in udp from 8.8.4.4 53 to assigned"}}}})
		}
	}
	if state == "sess" || state == "modded" || state == "deleted" || state == "released" {
		cs := canonicalSess(0, 0, 20)
		ops = append(ops, cs[1])
		hasSess = true
		if state == "modded" {
			ops = append(ops, cs[2])
			// a modification that removes every PDR leaves a session with zero PDRs
			if rapid.Bool().Draw(t, "strip") {
				ops = append(ops, model.Op{Kind: "mod", Peer: 0, Seq: 30, Sess: 0, RemPDRs: []uint16{1, 2}})
			}
		}
		if state == "deleted" {
			ops = append(ops, cs[3])
		}
		if state == "released" {
			ops = append(ops, opRelease(0, 31))
		}
	}
	nm := rapid.IntRange(1, 3).Draw(t, "nmut")
	var descs []any
	for i := 0; i < nm; i++ {
		seq := genSeq(t)
		layer := rapid.SampledFrom([]string{"ie", "ie", "ie", "ie", "ie", "bytes", "garbage", "valid"}).Draw(t, "layer")
		kind := rapid.SampledFrom(c01Kinds).Draw(t, "msgkind")
		raw, patch := c01Template(t, kind, seq, hasSess)
		var d []mutDesc
		switch layer {
		case "ie":
			m, ok := model.ParseMsg(raw)
			if !ok {
				t.Fatalf("template does not parse: %x", raw)
			}
			k := rapid.IntRange(1, 3).Draw(t, "k")
			for j := 0; j < k; j++ {
				d = append(d, applyMut(t, m))
			}
			raw = m.Bytes()
		case "bytes":
			switch rapid.IntRange(0, 2).Draw(t, "byteop") {
			case 0:
				k := rapid.IntRange(0, len(raw)-1).Draw(t, "cutat")
				raw = raw[:k]
				d = append(d, mutDesc{Op: "cutbytes", Arg: fmt.Sprint(k)})
			case 1:
				nflip := rapid.IntRange(1, 4).Draw(t, "nflip")
				raw = append([]byte(nil), raw...)
				for j := 0; j < nflip; j++ {
					k := rapid.IntRange(0, len(raw)*8-1).Draw(t, "bit")
					raw[k/8] ^= 1 << uint(k%8)
				}
				d = append(d, mutDesc{Op: "flipbytes", Arg: fmt.Sprint(nflip)})
			case 2:
				k := rapid.IntRange(0, len(raw)-1).Draw(t, "ovat")
				raw = append([]byte(nil), raw...)
				junk := rapid.SliceOfN(rapid.Byte(), 1, 8).Draw(t, "junk")
				copy(raw[k:], junk)
				d = append(d, mutDesc{Op: "overwrite", Arg: fmt.Sprint(k)})
			}
		case "valid":
			// the well-formed template itself: unusual but legal messages in unusual states
			d = append(d, mutDesc{Op: "none"})
		case "garbage":
			raw = rapid.SliceOfN(rapid.Byte(), 0, 64).Draw(t, "garbage")
			if len(raw) > 1 && rapid.Bool().Draw(t, "v1hdr") {
				raw[0] = 0x20 | raw[0]&1
				raw[1] = byte(rapid.SampledFrom([]int{1, 2, 3, 5, 6, 9, 50, 52, 54, 57}).Draw(t, "gtype"))
			}
			d = append(d, mutDesc{Op: "garbage"})
			patch = false
		}
		rop := model.Op{Kind: "raw", Peer: 0, Seq: seq, Raw: hex.EncodeToString(raw), PatchSEID: patch, Sess: 0,
			Note: kind, Extra: map[string]any{"mut": d}}
		if hbOn, _ := conf["hb"].(bool); hbOn && state != "none" && state != "released" && rapid.IntRange(0, 2).Draw(t, "holdhb") == 0 {
			// the datagram arrives while a Heartbeat Request of the agent's own is outstanding on the association: the
			// peer holds its answer back, the datagram is injected, the answer follows (a re-association, a release
			// or a session request that coincides with the agent's heartbeat must not wedge the connection)
			rop.Extra["holdhb"] = true
		}
		if kind != "est" && rapid.IntRange(0, 7).Draw(t, "flood") == 0 {
			// the same datagram many times over (a peer gone wild, or a replaying middle box): whatever a single
			// copy costs must not add up to a stuck association (full queue, exhausted table)
			rop.N = rapid.SampledFrom([]int{130, 160, 260}).Draw(t, "copies") // well above 100: a few copies may be dropped while the connection object is created
		}
		ops = append(ops, rop)
		descs = append(descs, d)
	}
	conf["post"] = true
	return model.Case{Conf: conf, Ops: ops}
}

func c01Rig(uealloc, up4, hb bool) (*Rig, error) {
	key := fmt.Sprintf("c01-up4=%v-alloc=%v-hb=%v", up4, uealloc, hb)
	return sharedRig(key, RigOpts{UP4: up4, Mut: func(c *pfcpiface.Conf) {
		if uealloc {
			c.CPIface.EnableUeIPAlloc = true
			c.CPIface.UEIPPool = "10.250.0.0/16"
		}
		if hb {
			c.EnableHBTimer = true
			c.HeartBeatInterval = "150ms"
			c.RespTimeout = "400ms"
			c.MaxReqRetries = 3
		}
	}})
}

func runC01(c model.Case, ev *Ev) error {
	ue, _ := c.Conf["uealloc"].(bool)
	up4, _ := c.Conf["up4"].(bool)
	hb, _ := c.Conf["hb"].(bool)
	r, err := c01Rig(ue, up4, hb)
	if err != nil {
		return fmt.Errorf("INFRA: %v", err)
	}
	run, err := r.newRunner(2)
	if err != nil {
		return fmt.Errorf("INFRA: %v", err)
	}
	defer cleanup(run)
	nontriv := false
	// intact: every injected datagram so far was dropped or answered with a rejection, so the association
	// and session state that the history built must still be there
	state, _ := c.Conf["state"].(string)
	intact := state == "assoc" || state == "sess" || state == "modded"
	// fuzzAccepted: a fuzzer-made datagram was accepted as a session request; what it installed (UE address, TEID)
	// may legitimately collide with the fixed follow-up scenario, so that scenario decides nothing then
	fuzzCase, _ := c.Conf["fuzz"].(bool)
	fuzzAccepted := false
	for i, op := range c.Ops {
		held := false
		if hold, _ := op.Extra["holdhb"].(bool); hold && op.Kind == "raw" {
			// hold the answers to the agent's heartbeats back and inject the datagram once one is outstanding
			pp := run.Peers[op.Peer].P
			since := time.Now()
			pp.SetOnHB(func(int, uint32) (bool, time.Duration) { return true, 120 * time.Millisecond })
			held = true
			for w := time.Now().Add(600 * time.Millisecond); time.Now().Before(w); time.Sleep(time.Millisecond) {
				if hs := pp.HBSeen(); len(hs) > 0 && hs[len(hs)-1].TS.After(since) {
					ev.Label("injected-into-outstanding-agent-heartbeat")
					break
				}
			}
		}
		o := run.Exec(op)
		if held {
			run.Peers[op.Peer].P.SetOnHB(nil)
		}
		if op.Kind != "raw" {
			// history ops are valid requests: they only set the stage
			if o.NoResp {
				return fmt.Errorf("op %d (%s): valid request not answered (alive=%v)", i, op.Kind, o.Alive)
			}
			continue
		}
		if !o.Alive {
			return fmt.Errorf("op %d: agent stopped answering heartbeats after datagram %s (%s %v)", i, op.Raw, op.Note, op.Extra["mut"])
		}
		if len(o.Extra) > 1 {
			return fmt.Errorf("op %d: %d datagrams came back for one injected datagram %s", i, len(o.Extra), op.Raw)
		}
		if len(o.Sent) > 1 && o.Sent[1] == message.MsgTypeSessionReportResponse {
			intact = false // a report response may legitimately end the session without any answer
		}
		if len(o.Flood) > op.N-1 && op.N > 1 {
			return fmt.Errorf("op %d: %d datagrams came back for %d copies of the injected datagram %s", i, len(o.Flood), op.N-1, op.Raw)
		}
		if op.N > 1 {
			ev.Label("flood")
		}
		for _, ans := range append(append([][]byte(nil), o.Flood...), o.Extra...) {
			am, err := message.Parse(ans)
			if err != nil {
				intact = false
				continue
			}
			if am.MessageType() == message.MsgTypeHeartbeatResponse {
				continue
			}
			if cause, ok := causeOf(am); !ok || cause == ie.CauseRequestAccepted {
				intact = false // processed as a valid request: whatever it meant has happened
				if mt := am.MessageType(); fuzzCase && (mt == message.MsgTypeSessionEstablishmentResponse || mt == message.MsgTypeSessionModificationResponse) {
					fuzzAccepted = true
				}
			}
		}
		// classification for the evidence
		if pm, err := message.Parse(o.Sent); err == nil && c01Dispatched[pm.MessageType()] {
			nontriv = true
			ev.Label(fmt.Sprintf("dispatched/%s", op.Note))
		} else {
			ev.Label("undecodable-or-undispatched")
		}
		ev.Class(fmt.Sprintf("%s|%v|%v", op.Note, mutKey(op.Extra["mut"]), c.Conf["state"]))
	}
	// (d) nothing that was dropped or rejected may have cost the peer its association or its session: a valid
	// request on the SAME association, without associating again, is processed normally
	if intact {
		var op model.Op
		if state == "assoc" {
			op = canonicalSess(40, 0, 0x90)[1]
		} else {
			op = model.Op{Kind: "mod", Peer: 0, Seq: 0x91, Sess: 0, Note: "any", UpdFARs: []model.FAR{{ID: 2, Action: model.ActDROP, HasFwd: true}}}
		}
		o := run.Exec(op)
		if o.NoResp || !o.Accepted {
			return fmt.Errorf("every injected datagram was dropped or rejected, yet a valid %s on the same association (state %q, no new Association Setup) is no longer processed normally: noresp=%v cause=%d\n%s", op.Kind, state, o.NoResp, o.Cause, c01Diag(r, o.CmdFrom))
		}
		ev.Label("same-association-follow-up")
	}
	if fuzzAccepted {
		ev.Label("fuzz-accepted-session-request")
		ev.Case(c, nontriv, len(c.Ops))
		return nil
	}
	// a valid scenario afterwards on the same peer and on another peer
	for peer := 0; peer < 2; peer++ {
		for j, op := range canonicalSess(50+peer, peer, uint32(0x100+peer*16)) {
			o := run.Exec(op)
			if o.NoResp || !o.Accepted {
				return fmt.Errorf("after the injected datagram(s) a valid %s on peer %d (step %d) was not processed normally: noresp=%v cause=%d alive=%v", op.Kind, peer, j, o.NoResp, o.Cause, o.Alive)
			}
			if len(o.Extra) != 0 {
				return fmt.Errorf("valid %s after the mutant got %d extra datagrams", op.Kind, len(o.Extra))
			}
		}
	}
	ev.Case(c, nontriv, len(c.Ops))
	return nil
}

func c01Diag(r *Rig, from int) string {
	if r.P4 != nil {
		f := from - 12
		if f < 0 {
			f = 0
		}
		return p4Diag(r, f)
	}
	return cmdDiag(r)
}

// causeOf extracts the Cause IE of a response.
func causeOf(m message.Message) (uint8, bool) {
	var c *ie.IE
	switch x := m.(type) {
	case *message.AssociationSetupResponse:
		c = x.Cause
	case *message.AssociationReleaseResponse:
		c = x.Cause
	case *message.PFDManagementResponse:
		c = x.Cause
	case *message.SessionEstablishmentResponse:
		c = x.Cause
	case *message.SessionModificationResponse:
		c = x.Cause
	case *message.SessionDeletionResponse:
		c = x.Cause
	default:
		return 0, false
	}
	if c == nil {
		return 0, false
	}
	v, err := c.Cause()
	return v, err == nil
}

func mutKey(v any) string {
	switch x := v.(type) {
	case []mutDesc:
		var s []string
		for _, d := range x {
			s = append(s, fmt.Sprintf("%s:%d", d.Op, d.IE))
		}
		return strings.Join(s, ",")
	case []any:
		var s []string
		for _, e := range x {
			if m, ok := e.(map[string]any); ok {
				s = append(s, fmt.Sprintf("%v:%v", m["op"], m["ie"]))
			}
		}
		return strings.Join(s, ",")
	}
	return ""
}

func TestC01(t *testing.T) {
	ev := newEv("C01")
	ev.Rule = "1-3 mutants per case (IE-tree mutations drop/dup/empty/truncate/zero/flip/retype/swap/unknown-IE/IPv6-only/CHOOSE flags/flow-description surgery/header surgery of a template of every message type, byte-level cut/flip/overwrite, garbage) injected into a drawn association/session state (none, associated, session, modified, zero-PDR session, deleted, released) with UE-IP allocation on/off; non-trivial = the mutant still decodes and its type is dispatched; distinct by (message kind, mutation operators and IE types, state)"
	ev.Assume = []string{"a crash kills the test process and is detected by the driver from the journal of the case in flight",
		"wedge = three probe heartbeats over 2 s unanswered"}
	runProp(t, ev, "mutants", true, genC01, runC01)
}

func init() {
	registerFns = append(registerFns, func() { registerReplay("C01", "mutants", runC01) })
}
