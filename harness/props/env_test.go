package props

import (
	"fmt"
	"net"
	"os"
	"path/filepath"
	"sync"
	"sync/atomic"
	"time"

	"github.com/omec-project/upf-epc/pfcpiface"

	"github.com/wmnsk/go-pfcp/ie"
	"github.com/wmnsk/go-pfcp/message"

	"verif/harness/model"
	"verif/harness/rig"
	"verif/harness/sim"
)

// Rig is one agent instance with the harness-owned datapath it talks to.
type Rig struct {
	A      *rig.Agent
	B      *rig.Bessd
	P4     *rig.P4d
	Notify *rig.UnixL
	EndM   *rig.UnixL
	Conf   pfcpiface.Conf
	Base   map[string]int // pool occupancy right after start-up (hook)
	// LimboTEID: per session index, TEIDs the UP function chose for PDRs that an Update PDR has moved elsewhere
	LimboTEID map[int]int
}

// fuzzMode: the process is a worker of a native fuzzing campaign (fuzz_test.go)
var fuzzMode bool

var (
	rigMu   sync.Mutex
	rigs    = map[string]*Rig{}
	rigN    int
	caseSeq atomic.Int64
)

func nextAddr() (n4 string, httpPort int) {
	rigMu.Lock()
	defer rigMu.Unlock()
	rigN++
	// unique per rig for 62500 rigs: an abandoned agent keeps listening (SO_REUSEPORT), so an address
	// must never be reused within a process or datagrams could be delivered to the old instance
	n4 = fmt.Sprintf("127.%d.%d.%d", 100+shard%100, (rigN/250)%250, 1+rigN%250)
	if fuzzMode {
		// fuzz workers are processes of their own inside one network namespace: addresses and ports by pid
		pid := os.Getpid()
		n4 = fmt.Sprintf("127.%d.%d.%d", 100+pid%100, (pid/100)%250, 1+rigN%250)
		httpPort = 10000 + (pid%200)*250 + rigN%250
		return
	}
	if rig.HaveNetns() {
		httpPort = 10000 + rigN%50000
	} else {
		httpPort = 10000 + (shard%16)*3000 + rigN%3000
	}
	return
}

func sockPath(name string) string {
	d := filepath.Join(os.TempDir(), fmt.Sprintf("verif-sock-%d", os.Getpid()))
	_ = os.MkdirAll(d, 0o755)
	return filepath.Join(d, name)
}

// RigOpts selects the datapath and features of a new agent instance.
type RigOpts struct {
	UP4       bool
	Notify    bool
	EndMarker bool
	Mut       func(c *pfcpiface.Conf)
	Junk      int // junk entries put into the datapath before the agent starts
	// SmallPools serves a P4Info with 9-cell meters and 16-cell counters (C15)
	SmallPools bool
}

// newRig starts a fresh datapath server and a fresh in-process agent.
func newRig(o RigOpts) (*Rig, error) {
	n4, hp := nextAddr()
	r := &Rig{LimboTEID: map[int]int{}}
	var conf pfcpiface.Conf
	if o.UP4 {
		var ms, cs int64
		if o.SmallPools {
			ms, cs = 9, 16
		}
		p4, err := rig.NewP4dSized("127.0.0.1:0", ms, cs)
		if err != nil {
			return nil, err
		}
		r.P4 = p4
		conf = rig.BaseConfUP4(n4, hp, p4.Addr)
	} else {
		b, err := rig.NewBessd("127.0.0.1:0")
		if err != nil {
			return nil, err
		}
		if o.Junk > 0 {
			b.InjectJunk(o.Junk, uint64(hp))
		}
		r.B = b
		conf = rig.BaseConfBESS(n4, hp)
		if o.Notify {
			l, err := rig.NewUnixL(sockPath(fmt.Sprintf("notify-%d", hp)))
			if err != nil {
				return nil, err
			}
			r.Notify = l
			conf.EnableNotifyBess = true
			conf.NotifySockAddr = l.Path
		}
		if o.EndMarker {
			l, err := rig.NewUnixL(sockPath(fmt.Sprintf("endm-%d", hp)))
			if err != nil {
				return nil, err
			}
			r.EndM = l
			conf.EndMarkerSockAddr = l.Path
		}
	}
	conf.EnableEndMarker = o.EndMarker
	if o.Mut != nil {
		o.Mut(&conf)
	}
	bessAddr := ""
	if r.B != nil {
		bessAddr = r.B.Addr
	}
	a, err := rig.StartAgent(conf, bessAddr)
	if err != nil {
		return nil, err
	}
	r.A = a
	r.Conf = conf
	if r.P4 != nil {
		// the UP4 plug-in connects in the background
		if !r.P4.WaitReady(10 * time.Second) {
			return nil, fmt.Errorf("agent never initialised the P4Runtime server")
		}
		// the plug-in flags itself connected a moment after the interfaces entries are written:
		// associate from a throw-away peer until it is accepted, then release that association
		if err := warmUp(r); err != nil {
			return nil, err
		}
	}
	return r, nil
}

// sharedRig returns a cached instance per key (many cases reuse one agent; every case uses
// fresh peer addresses and ends by releasing them).
func sharedRig(key string, o RigOpts) (*Rig, error) {
	rigMu.Lock()
	r, ok := rigs[key]
	rigMu.Unlock()
	if ok {
		return r, nil
	}
	r, err := newRig(o)
	if err != nil {
		return nil, err
	}
	rigMu.Lock()
	rigs[key] = r
	rigMu.Unlock()
	return r, nil
}

func dropRig(key string) {
	rigMu.Lock()
	delete(rigs, key)
	rigMu.Unlock()
}

// newRunner makes a runner with n fresh peers for one case.
func (r *Rig) newRunner(n int) (*sim.Runner, error) {
	base := 1 + int(caseSeq.Add(1)%250)
	return sim.NewRunner(r.A, r.B, r.P4, n, base)
}

// cleanup releases every peer of a finished case so that the agent forgets its sessions.
func cleanup(run *sim.Runner) {
	for i, p := range run.Peers {
		if p.ConnSeen && p.Assoc {
			run.Exec(opRelease(i, 0xfffff0))
		}
	}
	run.Close()
}

// AccessIP / CoreIP of the BESS agent as the model sees them.
func accessIP() string {
	if ip := rig.IfaceIP("acc0"); ip != nil {
		return ip.String()
	}
	return "127.0.0.1"
}

func coreIP() string {
	if ip := rig.IfaceIP("cor0"); ip != nil {
		return ip.String()
	}
	return "127.0.0.1"
}

var _ = net.IPv4zero

// cmdDiag summarises the datapath command log for failure messages.
func cmdDiag(r *Rig) string {
	if r.B == nil {
		return ""
	}
	cmds := r.B.LogSince(0)
	out := fmt.Sprintf("this server %s; datapath log (%d commands):", r.B.Addr, len(cmds))
	from := 0
	if len(cmds) > 40 {
		from = len(cmds) - 40
	}
	for _, c := range cmds[from:] {
		out += fmt.Sprintf("\n  #%d %s %s key=%s err=%q", c.Seq, c.Module, c.Cmd, c.Key, c.Err)
	}
	return out
}

func warmUp(r *Rig) error {
	p, err := rig.NewPeer("127.0.251.2:0", r.A.PFCPAddr())
	if err != nil {
		return err
	}
	defer p.Close()
	deadline := time.Now().Add(10 * time.Second)
	seq := uint32(1)
	for time.Now().Before(deadline) {
		seq++
		_ = p.Send(model.AssocSetup(seq, "172.31.250.1"))
		d, err := p.Recv(time.Second)
		raw := d.B
		if err == nil && len(raw) > 0 {
			if m, perr := message.Parse(raw); perr == nil {
				if ar, ok := m.(*message.AssociationSetupResponse); ok && ar.Cause != nil {
					if c, _ := ar.Cause.Cause(); c == ie.CauseRequestAccepted {
						// no probe afterwards: a heartbeat would leave a connection object behind
						_ = p.Send(model.AssocRelease(seq+1, "172.31.250.1"))
						_, _ = p.Recv(time.Second)
						time.Sleep(5 * time.Millisecond)
						return nil
					}
				}
			}
		}
		time.Sleep(5 * time.Millisecond)
	}
	return fmt.Errorf("UP4 agent never accepted an association (datapath not connected)")
}
