package props

import (
	"fmt"
	"testing"

	"github.com/omec-project/upf-epc/pfcpiface"
	"pgregory.net/rapid"

	"verif/harness/model"
	"verif/harness/sim"
)

// ---------- C09: QoS is enforced as signalled; the session-wide limiter is chosen soundly ----------

type qosVariant struct {
	name string
	cfg  []pfcpiface.QciQosConfig
	conf sim.QosConf
}

var builtinDefault = sim.QosCfg{CBS: 32 * 1514, PBS: 32 * 1514, EBS: 32 * 1514, DurMs: 10}

var qosVariants = []qosVariant{
	{name: "none", conf: sim.QosConf{PerQFI: map[uint8]sim.QosCfg{}, Default: builtinDefault}},
	{name: "full",
		cfg: []pfcpiface.QciQosConfig{{QCI: 0, CBS: 50000, PBS: 90000, EBS: 70000, BurstDurationMs: 10, SchedulingPriority: 7},
			{QCI: 9, CBS: 2048, PBS: 4096, EBS: 3072, BurstDurationMs: 0, SchedulingPriority: 6},
			{QCI: 5, CBS: 1, PBS: 3, EBS: 2, BurstDurationMs: 100000, SchedulingPriority: 1}},
		conf: sim.QosConf{PerQFI: map[uint8]sim.QosCfg{0: {CBS: 50000, PBS: 90000, EBS: 70000, DurMs: 10}, 9: {CBS: 2048, PBS: 4096, EBS: 3072}, 5: {CBS: 1, PBS: 3, EBS: 2, DurMs: 100000}},
			Default: sim.QosCfg{CBS: 50000, PBS: 90000, EBS: 70000, DurMs: 10}}},
	{name: "nodefault",
		cfg:  []pfcpiface.QciQosConfig{{QCI: 7, CBS: 100000, PBS: 300000, EBS: 200000, BurstDurationMs: 1, SchedulingPriority: 2}},
		conf: sim.QosConf{PerQFI: map[uint8]sim.QosCfg{7: {CBS: 100000, PBS: 300000, EBS: 200000, DurMs: 1}}, Default: builtinDefault}},
}

func qosRig(v int) (*Rig, error) {
	qv := qosVariants[v]
	return sharedRig("bess-qos-"+qv.name, RigOpts{Mut: func(c *pfcpiface.Conf) { c.QciQosConfig = qv.cfg }})
}

func genQERc09(t *rapid.T, id uint32, sessionLike bool) model.QER {
	q := genQER(t, id, !sessionLike)
	// QFIs with and without configuration
	q.QFI = rapid.SampledFrom([]uint8{0, 5, 7, 9, 1, 33, 63}).Draw(t, "qfi9")
	if rapid.IntRange(0, 3).Draw(t, "open") != 0 {
		q.GateUL, q.GateDL = 0, 0
	}
	return q
}

// qerListShape draws the QER-ID list of one PDR from the session's QERs.
func qerListShape(t *rapid.T, ids []uint32, common uint32) []uint32 {
	var l []uint32
	perm := rapid.Permutation(ids).Draw(t, "perm")
	n := rapid.IntRange(0, len(perm)).Draw(t, "take")
	l = append(l, perm[:n]...)
	if common != 0 {
		has := false
		for _, x := range l {
			has = has || x == common
		}
		if !has {
			pos := rapid.IntRange(0, len(l)).Draw(t, "cpos")
			l = append(append(append([]uint32{}, l[:pos]...), common), l[pos:]...)
		}
	}
	if len(l) > 3 {
		l = l[:3]
		if common != 0 {
			has := false
			for _, x := range l {
				has = has || x == common
			}
			if !has {
				l[2] = common
			}
		}
	}
	return l
}

func genC09(ev *Ev) func(t *rapid.T) model.Case {
	return func(t *rapid.T) model.Case {
		variant := rapid.IntRange(0, len(qosVariants)-1).Draw(t, "variant")
		ops := []model.Op{opAssoc(0, 100)}
		nSess := rapid.IntRange(1, 3).Draw(t, "nsess")
		seq := uint32(1000)
		type gs struct {
			qers []model.QER
			pdrs []model.PDR
			next uint32
		}
		var gss []*gs
		for si := 0; si < nSess; si++ {
			c := mkSessCtx(t, si, 0)
			nq := rapid.IntRange(0, 4).Draw(t, "nq")
			g := &gs{next: 20}
			var ids []uint32
			for i := 0; i < nq; i++ {
				q := genQERc09(t, uint32(1+i), rapid.Bool().Draw(t, "nongbr"))
				g.qers = append(g.qers, q)
				ids = append(ids, q.ID)
			}
			var common uint32
			if nq > 0 && rapid.IntRange(0, 3).Draw(t, "common?") != 0 {
				common = ids[rapid.IntRange(0, nq-1).Draw(t, "common")]
			}
			nPairs := rapid.IntRange(1, 3).Draw(t, "pairs")
			op := model.Op{Kind: "est", Peer: 0, Seq: seq, Sess: si, CPSEID: uint64(500 + si), QERs: g.qers}
			seq++
			for i := 0; i < nPairs; i++ {
				sdf := ""
				if i > 0 {
					sdf = fmt.Sprintf("permit out udp from 8.8.%d.0/24 to assigned", i)
				}
				ulq := qerListShape(t, ids, common)
				dlq := ulq
				if rapid.Bool().Draw(t, "dlother") {
					dlq = qerListShape(t, ids, common)
				}
				op.PDRs = append(op.PDRs,
					model.PDR{ID: uint16(1 + 2*i), Prec: uint32(10 + i), Src: "access", FTEID: true, TEID: c.teidUL, N3: accessIP(), OHR: true, FAR: 1, QERs: ulq, SDF: sdf},
					model.PDR{ID: uint16(2 + 2*i), Prec: uint32(10 + i), Src: "core", HasUE: true, UEIP: c.ue, FAR: 2, QERs: dlq, SDF: sdf})
			}
			op.FARs = []model.FAR{{ID: 1, Action: model.ActFORW, HasFwd: true, DstIf: model.IfCore},
				{ID: 2, Action: model.ActFORW, HasFwd: true, DstIf: model.IfAccess, HasOHC: true, TEID: 9, Peer: c.gnb}}
			wireOrder(t, op.PDRs, op.FARs, op.QERs)
			g.pdrs = op.PDRs
			gss = append(gss, g)
			ops = append(ops, op)
		}
		nMods := rapid.IntRange(0, scale(5, 8)).Draw(t, "nmods")
		for m := 0; m < nMods; m++ {
			si := rapid.IntRange(0, nSess-1).Draw(t, "msess")
			g := gss[si]
			op := model.Op{Kind: "mod", Peer: 0, Seq: seq, Sess: si}
			seq++
			switch rapid.SampledFrom([]string{"add1", "add2", "updq", "updq", "remq", "addpdr"}).Draw(t, "modkind") {
			case "add1", "add2":
				n := 1
				if op.Note = "add1"; rapid.Bool().Draw(t, "two") {
					n, op.Note = 2, "add2"
				}
				for i := 0; i < n; i++ {
					q := genQERc09(t, g.next, rapid.Bool().Draw(t, "nongbr"))
					g.next++
					op.QERs = append(op.QERs, q)
					g.qers = append(g.qers, q)
				}
			case "updq":
				if len(g.qers) == 0 {
					continue
				}
				i := rapid.IntRange(0, len(g.qers)-1).Draw(t, "qi")
				q := genQERc09(t, g.qers[i].ID, rapid.Bool().Draw(t, "nongbr"))
				op.UpdQERs = []model.QER{q}
				g.qers[i] = q
				op.Note = "updq"
			case "remq":
				if len(g.qers) == 0 {
					continue
				}
				i := rapid.IntRange(0, len(g.qers)-1).Draw(t, "qi")
				id := g.qers[i].ID
				// only remove QERs no PDR references (removing referenced ones is C03's business)
				used := false
				for _, p := range g.pdrs {
					for _, x := range p.QERs {
						used = used || x == id
					}
				}
				if used {
					continue
				}
				op.RemQERs = []uint32{id}
				g.qers = append(append([]model.QER{}, g.qers[:i]...), g.qers[i+1:]...)
				op.Note = "remq"
			case "addpdr":
				if len(g.pdrs) >= 8 {
					continue
				}
				var ids []uint32
				for _, q := range g.qers {
					ids = append(ids, q.ID)
				}
				// QERs that every existing PDR references: whichever of them the agent made
				// session-wide must stay referenced by the new PDR when the known hazard is excluded
				var inter []uint32
				for _, id := range ids {
					all := true
					for _, p := range g.pdrs {
						has := false
						for _, x := range p.QERs {
							has = has || x == id
						}
						all = all && has
					}
					if all {
						inter = append(inter, id)
					}
				}
				k := len(g.pdrs) / 2
				base := g.pdrs[1]
				ql := qerListShape(t, ids, 0)
				if excluded("modAddsPDRWithoutSessQER") {
					ev.Exclude("modAddsPDRWithoutSessQER")
					if len(inter) > 3 {
						continue
					}
					ql = append([]uint32{}, inter...)
					for _, id := range qerListShape(t, ids, 0) {
						has := false
						for _, x := range ql {
							has = has || x == id
						}
						if !has && len(ql) < 3 {
							ql = append([]uint32{id}, ql...)
						}
					}
				}
				np := model.PDR{ID: uint16(30 + k), Prec: uint32(40 + k), Src: "core", HasUE: true, UEIP: base.UEIP, FAR: 2,
					QERs: ql, SDF: fmt.Sprintf("permit out tcp from 9.9.%d.0/24 to assigned", k)}
				op.PDRs = []model.PDR{np}
				g.pdrs = append(g.pdrs, np)
				op.Note = "addpdr"
			}
			ops = append(ops, op)
		}
		return model.Case{Conf: map[string]any{"variant": variant}, Ops: ops}
	}
}

func runC09(c model.Case, ev *Ev) error {
	v := 0
	if f, ok := c.Conf["variant"].(float64); ok {
		v = int(f)
	} else if i, ok := c.Conf["variant"].(int); ok {
		v = i
	}
	r, err := qosRig(v)
	if err != nil {
		return fmt.Errorf("INFRA: %v", err)
	}
	cleanStart(r, ev)
	run, err := r.newRunner(1)
	if err != nil {
		return fmt.Errorf("INFRA: %v", err)
	}
	defer cleanup(run)
	conf := qosVariants[v].conf
	prev := map[int]sim.SessQ{}
	nontriv := false
	for i, op := range c.Ops {
		o := run.Exec(op)
		if o.NoResp {
			return fmt.Errorf("op %d: no response", i)
		}
		if op.Kind == "assoc" {
			continue
		}
		if !o.Accepted {
			return fmt.Errorf("op %d: %s %s inside the envelope rejected with cause %d", i, op.Kind, op.Note, o.Cause)
		}
		snap := r.B.Snap()
		cur, err := run.CheckBessQoS(snap, conf)
		if err != nil {
			return fmt.Errorf("after op %d (%s %s): %w", i, op.Kind, op.Note, err)
		}
		if op.Kind == "mod" {
			// a modification that neither removes nor updates the session-wide QER leaves it and its entries alone
			if p, ok := prev[op.Sess]; ok && p.Present {
				touched := false
				for _, q := range op.UpdQERs {
					touched = touched || q.ID == p.ID
				}
				for _, id := range op.RemQERs {
					touched = touched || id == p.ID
				}
				if !touched {
					n := cur[op.Sess]
					if !n.Present || n.ID != p.ID {
						return fmt.Errorf("after op %d (%s): session %d's session-wide QER changed from %d to %+v although the modification did not touch it", i, op.Note, op.Sess, p.ID, n)
					}
					if n.Seq != p.Seq {
						return fmt.Errorf("after op %d (%s): session %d's session-level entries were rewritten although QER %d was not touched", i, op.Note, op.Sess, p.ID)
					}
				}
			}
			if len(op.QERs) >= 2 {
				nontriv = true
			}
		}
		for k, v := range cur {
			prev[k] = v
		}
		if s := run.Sess[op.Sess]; s != nil && op.Kind == "est" {
			if len(s.QERs) >= 3 {
				nontriv = true
			}
			for _, p := range s.PDRs[1:] {
				if fmt.Sprint(p.QERs) != fmt.Sprint(s.PDRs[0].QERs) {
					nontriv = true
				}
			}
			if cur[op.Sess].Present {
				ev.Label("session-qer-chosen")
			} else {
				ev.Label("no-session-qer")
			}
		}
		ev.Label(op.Kind + "/" + op.Note)
	}
	ev.Case(c, nontriv, len(c.Ops))
	return nil
}

func TestC09(t *testing.T) {
	ev := newEv("C09")
	ev.Rule = "sessions with 0-4 QERs (40-bit MBR/GBR incl. boundaries, both gate bits, QFIs with and without burst configuration), PDR QER lists drawn as permutations/sublists of the session's QERs (different order per PDR, partial overlap, with or without a common QER), under 3 qci_qos_config variants, followed by modifications that add one or two QERs, update or remove a QER, or add a PDR; non-trivial = session with >=3 QERs or PDR lists that differ, or a modification adding >=2 QERs; distinct by canonical case"
	ev.Assume = []string{"burst lower bound: floor(rate x duration) with relative float tolerance 2^-50 minus 1 byte", "GBR > MBR is generated but nothing is asserted for that direction",
		"which admissible QER becomes session-wide is not prescribed: the oracle derives the agent's choice from the tables (QER without application-level entry) and checks the statement's conditions on it"}
	runProp(t, ev, "qos", true, genC09(ev), runC09)
}

func init() {
	registerFns = append(registerFns, func() { registerReplay("C09", "qos", runC09) })
}
