//go:build verif

package props

import (
	"fmt"
	"math/bits"
	"testing"

	"github.com/omec-project/upf-epc/pfcpiface"
	"pgregory.net/rapid"
)

// ---------- C17: port ranges are expanded exactly or refused ----------

type c17Single struct {
	Low      uint16 `json:"low"`
	High     uint16 `json:"high"`
	Strategy int    `json:"strategy"` // 0 Exact, 1 Ternary
}

// ruleBlock returns the port set a (value, mask) rule denotes when the mask is a prefix mask.
func ruleBlock(port, mask uint16) (lo, hi uint32, prefix bool) {
	inv := ^mask
	// prefix mask <=> inv+1 is a power of two (or inv == 0xffff)
	if inv&(inv+1) != 0 {
		return 0, 0, false
	}
	lo = uint32(port & mask)
	hi = lo + uint32(inv)
	return lo, hi, true
}

// setOfRules enumerates the ports matched by arbitrary (value, mask) rules.
func setOfRules(rules []pfcpiface.VerifPortRule) *[1024]uint64 {
	var bs [1024]uint64
	for _, r := range rules {
		if lo, hi, ok := ruleBlock(r.Port, r.Mask); ok {
			for p := lo; p <= hi; p++ {
				bs[p>>6] |= 1 << (p & 63)
			}
			continue
		}
		for p := uint32(0); p < 65536; p++ {
			if uint16(p)&r.Mask == r.Port&r.Mask {
				bs[p>>6] |= 1 << (p & 63)
			}
		}
	}
	return &bs
}

func isWildcardRange(lo, hi uint16) bool { return lo == 0 && (hi == 65535 || hi == 0) }

// checkSingle is the oracle for the expansion of one range.
func checkSingle(c c17Single, ev *Ev) error {
	rules, err := pfcpiface.VerifPortRangeExpand(c.Low, c.High, c.Strategy)
	lo, hi := uint32(c.Low), uint32(c.High)
	if c.Low > c.High {
		// an inverted value denotes the empty set: error and "no rules" are both correct
		if err != nil {
			return nil
		}
		for _, r := range rules {
			_ = r
			return fmt.Errorf("inverted range %d-%d (strategy %d) produced rules %v", c.Low, c.High, c.Strategy, rules)
		}
		return nil
	}
	trivial := c.Low == c.High || isWildcardRange(c.Low, c.High)
	if err != nil {
		if trivial {
			return fmt.Errorf("trivial range %d-%d refused: %v", c.Low, c.High, err)
		}
		if c.Strategy == 1 {
			return fmt.Errorf("ternary strategy refused %d-%d: %v", c.Low, c.High, err)
		}
		return nil // refused, never approximated
	}
	if !trivial {
		ev.NTAdd(1)
	}
	if isWildcardRange(c.Low, c.High) {
		lo, hi = 0, 65535
	}
	// wildcard rules only for the full range / the documented 0-0
	for _, r := range rules {
		if r.Mask == 0 && !(lo == 0 && hi == 65535) {
			return fmt.Errorf("range %d-%d (strategy %d) produced a wildcard rule", c.Low, c.High, c.Strategy)
		}
	}
	// algebraic check: ordered, gap-free block partition of [lo, hi]
	next := lo
	algebraic := true
	for _, r := range rules {
		blo, bhi, ok := ruleBlock(r.Port, r.Mask)
		if !ok || blo != next {
			algebraic = false
			break
		}
		next = bhi + 1
	}
	if algebraic && len(rules) > 0 {
		if next != hi+1 {
			return fmt.Errorf("range %d-%d (strategy %d): rules %v cover up to %d", c.Low, c.High, c.Strategy, rules, int(next)-1)
		}
		return nil
	}
	// arbitrary masks or unordered rules: enumerate
	bs := setOfRules(rules)
	for p := uint32(0); p < 65536; p++ {
		in := bs[p>>6]&(1<<(p&63)) != 0
		want := p >= lo && p <= hi
		if in != want {
			return fmt.Errorf("range %d-%d (strategy %d): port %d matched=%v want %v (rules %v)", c.Low, c.High, c.Strategy, p, in, want, trunc(rules))
		}
	}
	return nil
}

func trunc(r []pfcpiface.VerifPortRule) []pfcpiface.VerifPortRule {
	if len(r) > 12 {
		return r[:12]
	}
	return r
}

func runC17Single(c c17Single, ev *Ev) error {
	ev.Count(1)
	return checkSingle(c, ev)
}

// TestC17Single: boundary enumeration + random in quick, all 2^32 (low, high) x 2 strategies in thorough.
func TestC17Single(t *testing.T) {
	ev := newEv("C17")
	registerReplay("C17", "single", runC17Single)
	defer ev.write()
	ev.Rule = "single-range expansion through the hook for both strategies; non-trivial = accepted true range (neither exact nor wildcard); every (low, high, strategy) is distinct by construction"
	var bounds []uint16
	seen := map[uint16]bool{}
	add := func(v int) {
		if v >= 0 && v <= 65535 && !seen[uint16(v)] {
			seen[uint16(v)] = true
			bounds = append(bounds, uint16(v))
		}
	}
	for k := 0; k <= 16; k++ {
		for d := -2; d <= 2; d++ {
			add(1<<uint(k) + d)
		}
	}
	for d := 0; d <= 2; d++ {
		add(d)
		add(65535 - d)
	}
	run := func(c c17Single) {
		if err := runC17Single(c, ev); err != nil {
			failNow(t, ev, "single", c, err)
		}
	}
	if !thorough() {
		n := 0
		for st := 0; st <= 1; st++ {
			// all ranges with low or high within 2 of a power of two or the ends
			for _, b := range bounds {
				for v := 0; v < 65536; v++ {
					if n%nShards == shard {
						run(c17Single{b, uint16(v), st})
						run(c17Single{uint16(v), b, st})
					}
					n++
				}
			}
			// all widths <= 102 at every low divisible by the shard pattern
			for lo := 0; lo < 65536; lo++ {
				if lo%nShards != shard {
					continue
				}
				for w := 0; w <= 102 && lo+w < 65536; w++ {
					run(c17Single{uint16(lo), uint16(lo + w), st})
				}
			}
		}
		ev.Sample(c17Single{1023, 2050, 1})
		ev.Sample(c17Single{80, 179, 0})
		// random part
		rapid.Check(t, func(rt *rapid.T) {
			c := c17Single{rapid.Uint16().Draw(rt, "low"), rapid.Uint16().Draw(rt, "high"), rapid.IntRange(0, 1).Draw(rt, "strategy")}
			if err := runC17Single(c, ev); err != nil {
				writeReplay(failPath("C17"), "C17", "single", c, err.Error())
				rt.Fatalf("%v", err)
			}
		})
		return
	}
	// thorough: the complete space, sharded by low
	for st := 0; st <= 1; st++ {
		for lo := shard; lo < 65536; lo += nShards {
			for hi := 0; hi < 65536; hi++ {
				c := c17Single{uint16(lo), uint16(hi), st}
				ev.Evals++
				if err := checkSingle(c, ev); err != nil {
					failNow(t, ev, "single", c, err)
				}
			}
		}
	}
	ev.Exhaust = true
	ev.Sample(c17Single{1023, 2050, 1})
	ev.Sample(c17Single{80, 179, 0})
}

// ---- Cartesian product over boundary classes ----

type c17Pair struct {
	SL uint16 `json:"sl"`
	SH uint16 `json:"sh"`
	DL uint16 `json:"dl"`
	DH uint16 `json:"dh"`
}

func rangeSet(lo, hi uint16) (uint32, uint32) {
	if isWildcardRange(lo, hi) {
		return 0, 65535
	}
	return uint32(lo), uint32(hi)
}

func sideSet(rules []pfcpiface.VerifPortRule) *[1024]uint64 { return setOfRules(rules) }

func eqRange(bs *[1024]uint64, lo, hi uint32) (uint32, bool) {
	for p := uint32(0); p < 65536; p++ {
		in := bs[p>>6]&(1<<(p&63)) != 0
		if in != (p >= lo && p <= hi) {
			return p, false
		}
	}
	return 0, true
}

func isTrueRange(lo, hi uint16) bool { return lo != hi && !isWildcardRange(lo, hi) }

func runC17Pair(c c17Pair, ev *Ev) error {
	ev.Count(1)
	if c.SL > c.SH || c.DL > c.DH {
		return nil // inverted values never reach the product (refused at parse time; see flow-description check)
	}
	rules, err := pfcpiface.VerifPortRangeProduct(c.SL, c.SH, c.DL, c.DH)
	sTrue, dTrue := isTrueRange(c.SL, c.SH), isTrueRange(c.DL, c.DH)
	if err != nil {
		if !sTrue && !dTrue {
			return fmt.Errorf("pair %v with two trivial sides refused: %v", c, err)
		}
		return nil
	}
	if sTrue && dTrue {
		return fmt.Errorf("pair %v with two true ranges accepted (%d rules)", c, len(rules))
	}
	if sTrue || dTrue {
		ev.NT(fmt.Sprint(c))
	}
	if len(rules) == 0 {
		return fmt.Errorf("pair %v accepted with zero rules", c)
	}
	slo, shi := rangeSet(c.SL, c.SH)
	dlo, dhi := rangeSet(c.DL, c.DH)
	// wildcard only for full range / 0-0
	for _, r := range rules {
		if r.SrcMask == 0 && !(slo == 0 && shi == 65535) {
			return fmt.Errorf("pair %v: wildcard source rule", c)
		}
		if r.DstMask == 0 && !(dlo == 0 && dhi == 65535) {
			return fmt.Errorf("pair %v: wildcard destination rule", c)
		}
	}
	sameDst, sameSrc := true, true
	for _, r := range rules[1:] {
		if r.DstPort != rules[0].DstPort || r.DstMask != rules[0].DstMask {
			sameDst = false
		}
		if r.SrcPort != rules[0].SrcPort || r.SrcMask != rules[0].SrcMask {
			sameSrc = false
		}
	}
	var src, dst []pfcpiface.VerifPortRule
	for _, r := range rules {
		src = append(src, pfcpiface.VerifPortRule{Port: r.SrcPort, Mask: r.SrcMask})
		dst = append(dst, pfcpiface.VerifPortRule{Port: r.DstPort, Mask: r.DstMask})
	}
	switch {
	case sameDst:
		if p, ok := eqRange(sideSet(src), slo, shi); !ok {
			return fmt.Errorf("pair %v: source port %d wrongly (un)matched", c, p)
		}
		if p, ok := eqRange(sideSet(dst[:1]), dlo, dhi); !ok {
			return fmt.Errorf("pair %v: destination port %d wrongly (un)matched", c, p)
		}
	case sameSrc:
		if p, ok := eqRange(sideSet(dst), dlo, dhi); !ok {
			return fmt.Errorf("pair %v: destination port %d wrongly (un)matched", c, p)
		}
		if p, ok := eqRange(sideSet(src[:1]), slo, shi); !ok {
			return fmt.Errorf("pair %v: source port %d wrongly (un)matched", c, p)
		}
	default:
		// general product: every rule inside S x D, and for every s the union of D-sides equals D
		for s := slo; s <= shi; s++ {
			var sel []pfcpiface.VerifPortRule
			for i, r := range src {
				if uint16(s)&r.Mask == r.Port&r.Mask {
					sel = append(sel, dst[i])
				}
			}
			if p, ok := eqRange(sideSet(sel), dlo, dhi); !ok {
				return fmt.Errorf("pair %v: (src %d, dst %d) wrongly (un)matched", c, s, p)
			}
		}
		if p, ok := eqRange(sideSet(src), slo, shi); !ok {
			return fmt.Errorf("pair %v: source port %d matched outside the range", c, p)
		}
	}
	return nil
}

func genBoundaryRange(t *rapid.T, label string) (uint16, uint16) {
	k := rapid.IntRange(0, 11).Draw(t, label+"class")
	base := rapid.OneOf(rapid.Uint16Range(1, 65000), rapid.SampledFrom([]uint16{1, 2, 1023, 1024, 32767, 32768, 65400})).Draw(t, label+"base")
	switch k {
	case 0:
		return 0, 65535
	case 1:
		return 0, 0
	case 2:
		return base, base
	case 3:
		return base, base + 1
	case 4:
		return base, base + 99
	case 5:
		return base, base + 100
	case 6:
		return base, base + 101
	case 7:
		return 1, 65535
	case 8:
		return 0, 65534
	case 9:
		return 65535, 65535
	case 10:
		return 0, base
	default:
		w := uint16(rapid.IntRange(1, 130).Draw(t, label+"w"))
		return base, base + w
	}
}

func TestC17Pairs(t *testing.T) {
	ev := newEv("C17")
	ev.Rule = "pairs of ranges drawn from boundary classes (wildcard, 0-0, exact, width 2/100/101/102, near-full, 0-x) fed to the Cartesian product; non-trivial = accepted pair with one true range; distinct by the four bounds"
	runProp(t, ev, "pairs", false, func(rt *rapid.T) c17Pair {
		sl, sh := genBoundaryRange(rt, "s")
		dl, dh := genBoundaryRange(rt, "d")
		return c17Pair{sl, sh, dl, dh}
	}, runC17Pair)
}

func init() {
	registerFns = append(registerFns, func() {
		registerReplay("C17", "single", runC17Single)
		registerReplay("C17", "pairs", runC17Pair)
	})
}

var _ = bits.Len
