//go:build verif

package props

import (
	"fmt"
	"strings"
	"testing"

	"github.com/omec-project/upf-epc/pfcpiface"
	"pgregory.net/rapid"

	"verif/harness/model"
	"verif/harness/sim"
)

// ---------- C08: SDF filters and PFD-backed application IDs mean what they say ----------

type fdGen struct {
	Action, Dir, Proto string
	From, To           epGen
}

type epGen struct {
	Text string // any | assigned | a.b.c.d[/len]
	Port string // "" | "p" | "lo-hi"
}

func genEP(t *rapid.T, label string, allowAssigned bool) epGen {
	var e epGen
	k := rapid.IntRange(0, 4).Draw(t, label+"kind")
	switch {
	case k == 0:
		e.Text = "any"
	case k == 1 && allowAssigned:
		e.Text = "assigned"
	default:
		ip := fmt.Sprintf("%d.%d.%d.%d", rapid.IntRange(1, 223).Draw(t, label+"a"), rapid.IntRange(0, 255).Draw(t, label+"b"), rapid.IntRange(0, 255).Draw(t, label+"c"), rapid.IntRange(0, 255).Draw(t, label+"d"))
		switch rapid.IntRange(0, 2).Draw(t, label+"len?") {
		case 0:
			e.Text = ip
		default:
			e.Text = fmt.Sprintf("%s/%d", ip, rapid.OneOf(rapid.IntRange(0, 32), rapid.SampledFrom([]int{0, 1, 8, 16, 24, 31, 32})).Draw(t, label+"len"))
		}
	}
	switch rapid.IntRange(0, 3).Draw(t, label+"port?") {
	case 1:
		e.Port = fmt.Sprint(rapid.OneOf(rapid.IntRange(1, 65535), rapid.SampledFrom([]int{1, 80, 65535})).Draw(t, label+"p"))
	case 2:
		lo := rapid.IntRange(1, 65534).Draw(t, label+"lo")
		hi := rapid.IntRange(lo, 65535).Draw(t, label+"hi")
		if rapid.Bool().Draw(t, label+"narrow") {
			hi = lo + rapid.IntRange(0, 99).Draw(t, label+"w")
			if hi > 65535 {
				hi = 65535
			}
		}
		e.Port = fmt.Sprintf("%d-%d", lo, hi)
	}
	return e
}

func (e epGen) String() string {
	if e.Port == "" {
		return e.Text
	}
	return e.Text + " " + e.Port
}

func genFD(t *rapid.T) fdGen {
	f := fdGen{
		Action: rapid.SampledFrom([]string{"permit", "deny"}).Draw(t, "action"),
		Dir:    rapid.SampledFrom([]string{"in", "out"}).Draw(t, "dir"),
	}
	switch rapid.IntRange(0, 3).Draw(t, "protokind") {
	case 0:
		f.Proto = "ip"
	case 1:
		f.Proto = "tcp"
	case 2:
		f.Proto = "udp"
	default:
		f.Proto = fmt.Sprint(rapid.IntRange(0, 254).Draw(t, "proton"))
	}
	f.From = genEP(t, "from", true)
	f.To = genEP(t, "to", true)
	return f
}

func (f fdGen) Text() string {
	return fmt.Sprintf("%s %s %s from %s to %s", f.Action, f.Dir, f.Proto, f.From, f.To)
}

type c08Parse struct {
	Text    string `json:"text"`
	UE      string `json:"ue"`
	Corrupt string `json:"corrupt,omitempty"` // class of structural corruption ("" = in grammar)
}

// corrupt applies one corruption of a class the statement names.
func corruptFD(t *rapid.T, f fdGen) (string, string) {
	toks := strings.Fields(f.Text())
	// token positions: 0 action, 1 dir, 2 proto, 3 from, 4 addr, [5 port], to, addr, [port]
	toIdx := -1
	for i, x := range toks {
		if x == "to" {
			toIdx = i
		}
	}
	class := rapid.SampledFrom([]string{"action", "direction", "badaddr", "badport", "inverted", "cut", "noaddr"}).Draw(t, "corrupt")
	switch class {
	case "action":
		toks[0] = rapid.SampledFrom([]string{"allow", "PERMIT", "Permit", "accept", "x"}).Draw(t, "w")
	case "direction":
		toks[1] = rapid.SampledFrom([]string{"both", "OUT", "In", "inout", "x"}).Draw(t, "w")
	case "badaddr":
		pos := rapid.SampledFrom([]int{4, toIdx + 1}).Draw(t, "pos")
		toks[pos] = rapid.SampledFrom([]string{"300.1.1.1", "1.2.3", "1.2.3.4/33", "abc", "1.2.3.4/", "/24", "1.2.3.4/-1", "1.2.3.4/24/8", "1.2.3.4.5", "1..2.3"}).Draw(t, "w")
	case "badport", "inverted":
		bad := rapid.SampledFrom([]string{"80x", "-", "80-", "-80", "65536", "1-2-3", "a-b", "99999"}).Draw(t, "w")
		if class == "inverted" {
			lo := rapid.IntRange(2, 65535).Draw(t, "ilo")
			bad = fmt.Sprintf("%d-%d", lo, rapid.IntRange(1, lo-1).Draw(t, "ihi"))
		}
		// replace an existing port token or append one after the last address
		if f.To.Port != "" {
			toks[len(toks)-1] = bad
		} else if f.From.Port != "" && rapid.Bool().Draw(t, "fromport") {
			toks[5] = bad
		} else {
			toks = append(toks, bad)
		}
	case "cut":
		k := rapid.IntRange(0, len(toks)-1).Draw(t, "cutk")
		cand := strings.Join(toks[:k], " ")
		if _, err := model.ParseFlow(cand); err == nil {
			return cand, "" // still a sentence of the grammar
		}
		return cand, "cut"
	case "noaddr":
		pos := rapid.SampledFrom([]int{4, toIdx + 1}).Draw(t, "pos")
		toks = append(append([]string{}, toks[:pos]...), toks[pos+1:]...)
		cand := strings.Join(toks, " ")
		if _, err := model.ParseFlow(cand); err == nil {
			return cand, ""
		}
		// dropping the address in front of a port makes the port the address: unparsable address
	}
	return strings.Join(toks, " "), class
}

func runC08Parse(c c08Parse, ev *Ev) error {
	got, err := pfcpiface.VerifParseFlowDesc(c.Text, c.UE)
	if c.Corrupt != "" {
		if err == nil {
			return fmt.Errorf("structurally malformed description (%s) %q was parsed into %+v", c.Corrupt, c.Text, *got)
		}
		ev.Label("malformed/" + c.Corrupt)
		ev.Case(c, false, len(c.Text))
		return nil
	}
	want, perr := model.ParseFlow(c.Text)
	if perr != nil {
		return fmt.Errorf("INFRA: generator produced text outside its own grammar: %q: %v", c.Text, perr)
	}
	if err != nil {
		return fmt.Errorf("in-grammar description %q rejected: %v", c.Text, err)
	}
	if got.Action != want.Action || got.Direction != want.Dir {
		return fmt.Errorf("%q: action/direction %s/%s, want %s/%s", c.Text, got.Action, got.Direction, want.Action, want.Dir)
	}
	if want.ProtoAny {
		if got.Proto != 255 {
			return fmt.Errorf("%q: protocol %d for 'ip', want the any-protocol marker 255", c.Text, got.Proto)
		}
	} else if got.Proto != want.Proto {
		return fmt.Errorf("%q: protocol %d, want %d", c.Text, got.Proto, want.Proto)
	}
	ue := uint32(0)
	if c.UE != "" && c.UE != "0.0.0.0" {
		ue = model.IP2U(c.UE)
	}
	chk := func(side string, e model.Endpoint, net string, lo, hi uint16) error {
		var wn uint32
		var wl int
		switch {
		case e.Any:
		case e.Assigned:
			if ue != 0 {
				wn, wl = ue, 32
			}
		default:
			wn, wl = e.Net, e.Len
		}
		wantNet := fmt.Sprintf("%s/%d", model.U2IP(wn&model.MaskOf(wl)), wl)
		if net != wantNet {
			return fmt.Errorf("%q: %s network %s, want %s", c.Text, side, net, wantNet)
		}
		wlo, whi := uint16(0), uint16(65535)
		if e.HasPort {
			wlo, whi = e.Lo, e.Hi
		}
		if lo != wlo || hi != whi {
			return fmt.Errorf("%q: %s ports %d-%d, want %d-%d", c.Text, side, lo, hi, wlo, whi)
		}
		return nil
	}
	if err := chk("source", want.From, got.SrcNet, got.SrcLow, got.SrcHigh); err != nil {
		return err
	}
	if err := chk("destination", want.To, got.DstNet, got.DstLow, got.DstHigh); err != nil {
		return err
	}
	nt := (want.From.Len > 0 && want.From.Len < 32 || want.To.Len > 0 && want.To.Len < 32) && (want.From.HasPort && want.From.Lo != want.From.Hi || want.To.HasPort && want.To.Lo != want.To.Hi)
	ev.Label("grammar")
	ev.Case(c, nt, len(c.Text))
	return nil
}

func TestC08Parser(t *testing.T) {
	ev := newEv("C08")
	ev.Rule = "flow descriptions generated from the IPFilterRule grammar (permit|deny, in|out, ip|tcp|udp|0-254, from/to any|assigned|IPv4[/0-32], optional port or range on either or both endpoints) round-trip through the parser hook against an independent parser; token-level corruptions of the classes the statement names (unknown action/direction, unparsable or missing address, unparsable port, inverted range, cut) must be refused; non-trivial = prefix length strictly between 0 and 32 together with a true port range; distinct by text"
	runProp(t, ev, "parse", false, func(rt *rapid.T) c08Parse {
		f := genFD(rt)
		ue := rapid.SampledFrom([]string{"10.60.0.9", "0.0.0.0", "", "172.16.1.1"}).Draw(rt, "ue")
		if rapid.IntRange(0, 2).Draw(rt, "corrupt?") == 0 {
			txt, class := corruptFD(rt, f)
			return c08Parse{Text: txt, UE: ue, Corrupt: class}
		}
		return c08Parse{Text: f.Text(), UE: ue}
	}, runC08Parse)
}

// ---- PDR level, through PFCP, observed at the harness BESS server ----

type c08PDR struct {
	Text    string `json:"text"`
	Src     string `json:"src"`
	HasUE   bool   `json:"hasue"`
	Corrupt string `json:"corrupt,omitempty"`
	Strong  bool   `json:"strong"` // inside the exact envelope: remote first, UE side assigned, <=1 port spec, permit
}

func genC08PDR(t *rapid.T) c08PDR {
	c := c08PDR{Src: rapid.SampledFrom([]string{"access", "core"}).Draw(t, "src"), HasUE: rapid.Bool().Draw(t, "hasue")}
	if c.Src == "core" {
		c.HasUE = true // a downlink PDR is identified by the UE address
	}
	f := genFD(t)
	if rapid.IntRange(0, 3).Draw(t, "envelope") != 0 {
		// the supported envelope: remote endpoint first, UE side written "assigned", one port spec at most
		f.Action = "permit"
		f.To = epGen{Text: "assigned"}
		if f.From.Text == "assigned" {
			f.From.Text = "any"
		}
		if rapid.Bool().Draw(t, "portonue") && f.From.Port != "" {
			f.To.Port, f.From.Port = f.From.Port, ""
		}
		c.Strong = true
	}
	// ranges wider than the Exact strategy can express are not installed at all by the datapath plug-in (it
	// only logs the refusal and the request completes after the join timeout): outside the envelope, and
	// exercised at the expansion level in C17. Narrow them here.
	narrow := func(p string) string {
		var lo, hi int
		if n, _ := fmt.Sscanf(p, "%d-%d", &lo, &hi); n == 2 && hi-lo+1 > 100 {
			return fmt.Sprintf("%d-%d", lo, lo+99)
		}
		return p
	}
	f.From.Port, f.To.Port = narrow(f.From.Port), narrow(f.To.Port)
	if strings.Contains(f.From.Port, "-") && strings.Contains(f.To.Port, "-") {
		f.To.Port = "" // two true ranges cannot be installed either
	}
	if f.From.Port != "" && f.To.Port != "" {
		c.Strong = false
	}
	c.Text = f.Text()
	if rapid.IntRange(0, 3).Draw(t, "corrupt?") == 0 {
		c.Text, c.Corrupt = corruptFD(t, f)
		if c.Corrupt == "" {
			if _, err := model.ParseFlow(c.Text); err != nil {
				c.Corrupt = "cut"
			}
			c.Strong = false
		}
	}
	return c
}

func c08Sess(c c08PDR, sdf string) model.Op {
	p := model.PDR{ID: 1, Prec: 10, Src: c.Src, FAR: 1, SDF: sdf}
	if c.Src == "access" {
		p.FTEID, p.TEID, p.N3, p.OHR = true, 0x5151, accessIP(), true
	}
	if c.HasUE {
		p.HasUE, p.UEIP = true, "10.60.7.7"
	}
	return model.Op{Kind: "est", Peer: 0, Seq: 7, Sess: 0, CPSEID: 77, PDRs: []model.PDR{p},
		FARs: []model.FAR{{ID: 1, Action: model.ActFORW, HasFwd: true, DstIf: model.IfCore}}}
}

func runC08PDR(c c08PDR, ev *Ev) error {
	r, err := sharedRig("bess-noalloc", RigOpts{})
	if err != nil {
		return fmt.Errorf("INFRA: %v", err)
	}
	cleanStart(r, ev)
	run, err := r.newRunner(1)
	if err != nil {
		return fmt.Errorf("INFRA: %v", err)
	}
	defer cleanup(run)
	run.Exec(opAssoc(0, 1))
	op := c08Sess(c, c.Text)
	if c.Corrupt != "" || !c.Strong {
		op.Note = "any"
	}
	o := run.Exec(op)
	if o.NoResp || !o.Alive {
		return fmt.Errorf("establishment with flow description %q: no response / agent not alive", c.Text)
	}
	s := run.Sess[0]
	snap := r.B.Snap()
	switch {
	case c.Corrupt != "":
		// refused, or the filter is ignored so that the PDR matches on the UE address only
		if !o.Accepted {
			ev.Label("malformed/refused")
			break
		}
		es := sim.EntriesOf(snap, s.UPSEID, 1)
		if len(es) == 0 {
			return fmt.Errorf("malformed description %q accepted but no entry installed", c.Text)
		}
		got, err := sim.ObservedFilter(es)
		if err != nil {
			return fmt.Errorf("malformed description %q: %v", c.Text, err)
		}
		plain := s.PDRs[0]
		plain.SDF = ""
		exp, _ := sim.Expect(s, plain, bessEnv())
		if !sim.SameFilter(got, exp.F) {
			return fmt.Errorf("malformed description (%s) %q yielded a third filter %+v (neither refused nor UE-address-only %+v)", c.Corrupt, c.Text, got, exp.F)
		}
		ev.Label("malformed/ignored")
	case c.Strong:
		if !o.Accepted {
			return fmt.Errorf("in-grammar description %q refused (cause %d)", c.Text, o.Cause)
		}
		if err := run.CheckBessImage(snap, bessEnv(), sim.BessImageOpts{Packets: true}); err != nil {
			return fmt.Errorf("description %q on a PDR with source interface %s: %w", c.Text, c.Src, err)
		}
		ev.Label("grammar/exact")
	default:
		ev.Label("grammar/weak")
	}
	f, perr := model.ParseFlow(c.Text)
	nt := perr == nil && c.Strong && (f.From.Len > 0 && f.From.Len < 32) && (f.From.HasPort && f.From.Lo != f.From.Hi || f.To.HasPort && f.To.Lo != f.To.Hi)
	ev.Case(c, nt, len(c.Text))
	return nil
}

func TestC08PDR(t *testing.T) {
	ev := newEv("C08")
	ev.Rule = "one PDR (uplink or downlink, UE address present or absent) carrying a generated flow description is established over PFCP and the entries at the harness BESS server are compared with the independent denotation: inside the envelope (remote first, UE side 'assigned', at most one port specification, range width <= 100) exact equality incl. boundary packets; structurally malformed text => refused or UE-address-only; other grammar forms (two port specs, reversed endpoints, deny) only crash-freedom; non-trivial = exact case with prefix length in (0,32) and a true port range"
	runProp(t, ev, "pdr", true, genC08PDR, runC08PDR)
}

// ---- PFD histories ----

type c08PFDCase struct {
	Ops []model.Op `json:"ops"`
}

var pfdFlows = []string{
	"permit out ip from 8.8.8.8 to assigned",
	"permit in udp from 8.8.4.0/24 53 to assigned",
	"permit out tcp from 172.16.0.0/12 80-90 to assigned",
	"permit in ip from assigned to 9.9.9.9",
	"permit out 132 from any to assigned 2000",
	"permit in tcp from 10.1.0.0/16 to any 443",
	"permit out udp from 192.0.2.1 5000-5010 to 198.51.100.0/24",
}

func genC08PFD(t *rapid.T) model.Case {
	ops := []model.Op{opAssoc(0, 1)}
	n := rapid.IntRange(2, 10).Draw(t, "n")
	seq := uint32(10)
	sess := 0
	for i := 0; i < n; i++ {
		seq++
		if rapid.Bool().Draw(t, "pfd?") {
			op := model.Op{Kind: "pfd", Peer: 0, Seq: seq}
			na := rapid.IntRange(0, 3).Draw(t, "napps")
			for a := 0; a < na; a++ {
				f := model.PFD{App: fmt.Sprintf("app%d", rapid.IntRange(1, 3).Draw(t, "appn"))}
				dup := false
				for _, e := range op.PFDs {
					dup = dup || e.App == f.App
				}
				if dup {
					continue
				}
				nf := rapid.IntRange(1, 3).Draw(t, "nflows")
				for k := 0; k < nf; k++ {
					f.Flows = append(f.Flows, rapid.SampledFrom(pfdFlows).Draw(t, "flow"))
				}
				if rapid.IntRange(0, 4).Draw(t, "bad?") == 0 {
					f.Bad = rapid.SampledFrom([]string{"emptyfd", "nocontents"}).Draw(t, "bad")
				}
				op.PFDs = append(op.PFDs, f)
			}
			ops = append(ops, op)
		} else {
			src := rapid.SampledFrom([]string{"access", "core"}).Draw(t, "src")
			p := model.PDR{ID: 1, Prec: 10, Src: src, FAR: 1, AppID: fmt.Sprintf("app%d", rapid.IntRange(1, 4).Draw(t, "useapp"))}
			if src == "access" {
				p.FTEID, p.TEID, p.N3, p.OHR = true, uint32(0x6000+sess), accessIP(), true
				if rapid.Bool().Draw(t, "ulue") {
					p.HasUE, p.UEIP = true, fmt.Sprintf("10.61.0.%d", 1+sess)
				}
			} else {
				p.HasUE, p.UEIP = true, fmt.Sprintf("10.61.0.%d", 1+sess)
			}
			ops = append(ops, model.Op{Kind: "est", Peer: 0, Seq: seq, Sess: sess, CPSEID: uint64(900 + sess), Note: "any", PDRs: []model.PDR{p},
				FARs: []model.FAR{{ID: 1, Action: model.ActFORW, HasFwd: true, DstIf: model.IfCore}}})
			sess++
		}
	}
	return model.Case{Ops: ops}
}

func runC08PFD(c model.Case, ev *Ev) error {
	r, err := sharedRig("bess-noalloc", RigOpts{})
	if err != nil {
		return fmt.Errorf("INFRA: %v", err)
	}
	cleanStart(r, ev)
	run, err := r.newRunner(1)
	if err != nil {
		return fmt.Errorf("INFRA: %v", err)
	}
	defer cleanup(run)
	// inferred association keyword <-> PDR direction, one consistent mapping per run
	dirKey := map[string]string{}
	acc, rej := 0, 0
	for i, op := range c.Ops {
		o := run.Exec(op)
		if o.NoResp || !o.Alive {
			return fmt.Errorf("op %d (%s): no response", i, op.Kind)
		}
		switch op.Kind {
		case "pfd":
			if o.Predict == "accept" && !o.Accepted {
				return fmt.Errorf("op %d: well-formed PFD Management Request rejected (cause %d)", i, o.Cause)
			}
			if o.Predict == "reject" && o.Accepted {
				return fmt.Errorf("op %d: PFD Management Request with malformed PFD contents accepted", i)
			}
			if o.Accepted {
				acc++
			} else {
				rej++
			}
		case "est":
			p := op.PDRs[0]
			flows, known := run.Peers[0].PFDs[p.AppID] // the model table: replaced by accepted, untouched by rejected requests
			if !known {
				if o.Accepted {
					return fmt.Errorf("op %d: PDR naming application %q, which is not provisioned (table %v), was accepted", i, p.AppID, run.Peers[0].PFDs)
				}
				ev.Label("unknown-app-refused")
				continue
			}
			if !o.Accepted {
				return fmt.Errorf("op %d: PDR naming provisioned application %q refused (cause %d); table %v", i, p.AppID, o.Cause, run.Peers[0].PFDs)
			}
			s := run.Sess[op.Sess]
			es := sim.EntriesOf(r.B.Snap(), s.UPSEID, 1)
			if len(es) == 0 {
				// a description with two true port ranges cannot be installed (refused by the port expansion): envelope
				ev.Label("not-installed")
				continue
			}
			got, err := sim.ObservedFilter(es)
			if err != nil {
				return fmt.Errorf("op %d: %v", i, err)
			}
			ue := uint32(0)
			if p.HasUE {
				ue = model.IP2U(p.UEIP)
			}
			K := map[string]bool{}
			have := map[string]bool{}
			for _, fd := range flows {
				f, perr := model.ParseFlow(fd)
				if perr != nil {
					continue
				}
				have[f.Dir] = true
				if sim.SameFilter(got, f.Verbatim(ue)) {
					K[f.Dir] = true
				}
			}
			assocKey, isKnown := dirKey[p.Src]
			if len(K) == 0 {
				// acceptable only when no provisioned description carries the keyword associated with this
				// direction; the PDR then matches on the UE address only
				plain := p
				plain.AppID = ""
				exp, _ := sim.Expect(s, plain, bessEnv())
				ok := sim.SameFilter(got, exp.F)
				if isKnown {
					ok = ok && !have[assocKey]
				} else {
					ok = ok && (!have["in"] || !have["out"])
				}
				if !ok {
					return fmt.Errorf("op %d: PDR (%s, app %q) got filter %+v, which is none of the provisioned descriptions %v taken verbatim (keyword association so far %v)", i, p.Src, p.AppID, got, flows, dirKey)
				}
				ev.Label("no-matching-keyword")
				continue
			}
			if isKnown {
				if !K[assocKey] {
					return fmt.Errorf("op %d: PDR (%s, app %q) resolved to a description with another keyword than %q, which this direction used before (filter %+v, descriptions %v)", i, p.Src, p.AppID, assocKey, got, flows)
				}
			} else if len(K) == 1 {
				for k := range K {
					for d, kk := range dirKey {
						if d != p.Src && kk == k {
							return fmt.Errorf("op %d: both PDR directions resolve descriptions with keyword %q", i, k)
						}
					}
					dirKey[p.Src] = k
				}
			}
			ev.Label("pfd-filter-verbatim")
		}
	}
	ev.Case(c, acc >= 1 && rej >= 1, len(c.Ops))
	return nil
}

func TestC08PFD(t *testing.T) {
	ev := newEv("C08")
	ev.Rule = "sequences of PFD Management Requests (valid tables; rejected ones with an empty flow description or without PFD context) interleaved with establishments whose PDR names an application ID; the observed filter must be one of the descriptions provisioned at that time taken verbatim, with one consistent keyword<->direction association per run; unknown application => refused; non-trivial = history with an accepted and a rejected PFD request; distinct by op list"
	runProp(t, ev, "pfd", true, genC08PFD, runC08PFD)
}

func init() {
	registerFns = append(registerFns, func() {
		registerReplay("C08", "parse", runC08Parse)
		registerReplay("C08", "pdr", runC08PDR)
		registerReplay("C08", "pfd", runC08PFD)
	})
}
