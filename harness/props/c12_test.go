package props

import (
	"fmt"
	"net"
	"sync"
	"testing"
	"time"

	"github.com/omec-project/upf-epc/pfcpiface"
	"github.com/wmnsk/go-pfcp/ie"
	"github.com/wmnsk/go-pfcp/message"
	"pgregory.net/rapid"

	"verif/harness/model"
	"verif/harness/rig"
)

// ---------- C12: association, heartbeat and retransmission contract ----------

type c12Round struct {
	// K: answer the K-th transmission (1..N+1); 0 = answer none (the peer is dead from here on)
	K int `json:"k"`
	// Special: "" | "dup" (answer twice) | "wrongseq" (answer with another sequence number first, then properly at K)
	// | "peerhb" (K = 1: the answer is held back and the peer sends a Heartbeat Request of its own while the
	// agent's request is outstanding) | "reassoc" (K >= 2: while the first transmission goes unanswered the peer sets
	// the association up again on the same connection - same Recovery Time Stamp -; the K-th transmission is
	// answered and must count)
	Special string `json:"special,omitempty"`
}

type c12Case struct {
	N      int        `json:"n"`       // max_req_retries
	RespMs int        `json:"resp_ms"` // resp_timeout
	HBMs   int        `json:"hb_ms"`   // heart_beat_interval
	Rounds []c12Round `json:"rounds"`
	Sess   int        `json:"sess"` // sessions established before
}

func genC12(t *rapid.T) c12Case {
	c := c12Case{N: rapid.IntRange(1, scale(3, 4)).Draw(t, "n"), RespMs: rapid.SampledFrom([]int{60, 80, 120}).Draw(t, "resp"),
		HBMs: rapid.SampledFrom([]int{100, 150, 250}).Draw(t, "hb"), Sess: rapid.IntRange(0, 2).Draw(t, "sess")}
	nr := rapid.IntRange(1, 3).Draw(t, "rounds")
	if rapid.IntRange(0, 5).Draw(t, "directed") == 0 {
		// directed history: a re-association that falls into an outstanding heartbeat, then a peer heartbeat into
		// the next outstanding one - the replaced monitor must be gone by then (found c2c7ca4 in the thorough tier)
		c.Rounds = append(c.Rounds, c12Round{K: rapid.IntRange(2, c.N+1).Draw(t, "rk"), Special: "reassoc"}, c12Round{K: 1, Special: "peerhb"})
		nr = rapid.IntRange(0, 1).Draw(t, "more")
	}
	for i := 0; i < nr; i++ {
		r := c12Round{K: rapid.IntRange(1, c.N+1).Draw(t, "k")}
		r.Special = rapid.SampledFrom([]string{"", "", "", "dup", "wrongseq", "peerhb", "reassoc"}).Draw(t, "special")
		if r.Special == "peerhb" {
			r.K = 1
		}
		if r.Special == "reassoc" && r.K < 2 {
			r.K = 2
		}
		c.Rounds = append(c.Rounds, r)
	}
	if rapid.Bool().Draw(t, "dies") {
		c.Rounds = append(c.Rounds, c12Round{K: 0})
	}
	return c
}

type hbTracker struct {
	mu       sync.Mutex
	c        c12Case
	p        *rig.Peer
	seqOrder []uint32
	tx       map[uint32]int       // transmissions seen per sequence number
	answered map[uint32]time.Time // when the proper answer was sent
	slow     map[uint32]bool
	dead     bool
	peerHB   []time.Time // when the peer sent a heartbeat of its own into an outstanding agent heartbeat
	nodeID   string
	reassoc  int // Association Setup Requests sent into an outstanding heartbeat
}

// holdBack is how long a "peerhb" round keeps the agent's heartbeat unanswered: short of a retransmission
// and at least 80 ms short of the next tick, so that the agent's ticker cannot fire meanwhile; 0 = the
// configuration leaves no such window.
func (c c12Case) holdBack() time.Duration {
	d := c.RespMs - 20
	if c.HBMs-80 < d {
		d = c.HBMs - 80
	}
	if d < 55 {
		return 0
	}
	return time.Duration(d) * time.Millisecond
}

// policy answers according to the round the sequence number belongs to.
func (h *hbTracker) policy(n int, seq uint32) (bool, time.Duration) {
	h.mu.Lock()
	defer h.mu.Unlock()
	if _, ok := h.tx[seq]; !ok {
		h.seqOrder = append(h.seqOrder, seq)
	}
	h.tx[seq]++
	round := len(h.seqOrder) - 1
	for i, s := range h.seqOrder {
		if s == seq {
			round = i
		}
	}
	if round >= len(h.c.Rounds) {
		// beyond the script: keep the association alive unless the peer is dead
		if h.dead {
			return false, 0
		}
		if _, done := h.answered[seq]; !done {
			h.answered[seq] = time.Now()
		}
		return true, 0
	}
	r := h.c.Rounds[round]
	if r.K == 0 {
		h.dead = true
		return false, 0
	}
	k := h.tx[seq]
	if r.Special == "peerhb" && k == 1 {
		if d := h.c.holdBack(); d > 0 {
			h.answered[seq] = time.Now().Add(d)
			go func(round int) {
				time.Sleep(d - 5*time.Millisecond)
				h.mu.Lock()
				h.peerHB = append(h.peerHB, time.Now())
				h.mu.Unlock()
				h.p.Keepalive(0x7a0000 + uint32(round))
			}(round)
			return true, d
		}
	}
	if r.Special == "reassoc" && k == 1 {
		h.reassoc++
		go func(round int) {
			_ = h.p.Send(model.AssocSetupTS(0x7b0000+uint32(round), h.nodeID, 0))
		}(round)
		return false, 0
	}
	if r.Special == "wrongseq" && k < r.K {
		// a response with a sequence number nobody asked for must not count as an answer
		_ = h.p.Send(message.NewHeartbeatResponse((seq+77)&0xffffff, ie.NewRecoveryTimeStamp(model.PeerTS)))
		return false, 0
	}
	if k == r.K {
		h.answered[seq] = time.Now()
		if r.Special == "dup" {
			go func() {
				_ = h.p.Send(message.NewHeartbeatResponse(seq, ie.NewRecoveryTimeStamp(model.PeerTS)))
			}()
		}
		return true, 0
	}
	return false, 0
}

func runC12(c c12Case, ev *Ev) error {
	r, err := newRig(RigOpts{Mut: func(conf *pfcpiface.Conf) {
		conf.EnableHBTimer = true
		conf.HeartBeatInterval = fmt.Sprintf("%dms", c.HBMs)
		conf.RespTimeout = fmt.Sprintf("%dms", c.RespMs)
		conf.MaxReqRetries = uint8(c.N)
	}})
	if err != nil {
		return fmt.Errorf("INFRA: %v", err)
	}
	run, err := r.newRunner(2)
	if err != nil {
		return fmt.Errorf("INFRA: %v", err)
	}
	defer run.Close()
	p := run.Peers[0].P
	h := &hbTracker{c: c, p: p, tx: map[uint32]int{}, answered: map[uint32]time.Time{}, slow: map[uint32]bool{}, nodeID: run.Peers[0].NodeID}
	p.SetOnHB(h.policy)
	resp := time.Duration(c.RespMs) * time.Millisecond
	t0 := time.Now()
	if o := run.Exec(opAssoc(0, 1)); !o.Accepted {
		return fmt.Errorf("INFRA: association not accepted")
	}
	for i := 0; i < c.Sess; i++ {
		if o := run.Exec(c05Sess(i, false, false, "")); !o.Accepted {
			return fmt.Errorf("INFRA: establishment rejected (cause %d)", o.Cause)
		}
	}
	dies := len(c.Rounds) > 0 && c.Rounds[len(c.Rounds)-1].K == 0
	// let the script play: every round takes at most hb interval + (N+1) * resp_timeout
	// (three times that and two seconds on top: the loop below ends as soon as the script is through, so the slack
	// only costs time when something is wrong - on a machine shared with other runs the agent's timers fire late,
	// and a budget cut to the nominal times made five shards report "given up early" at the same instant)
	budget := 3*time.Duration(len(c.Rounds)+1)*(time.Duration(c.HBMs)*time.Millisecond+time.Duration(c.N+1)*resp) + 2*time.Second
	if dies && c.Sess == 0 {
		// nothing tells when a script that ends with a dying peer is through: nominal times plus a second
		budget = time.Duration(len(c.Rounds)+1)*(time.Duration(c.HBMs)*time.Millisecond+time.Duration(c.N+1)*resp) + time.Second
	}
	deadline := time.Now().Add(budget)
	var lastDel time.Time
	for time.Now().Before(deadline) {
		h.mu.Lock()
		n := len(h.seqOrder)
		h.mu.Unlock()
		if n > len(c.Rounds) && !dies {
			break
		}
		if dies && c.Sess > 0 {
			if s := r.B.Snap(); len(s.PDR)+len(s.FAR) == 0 && n >= len(c.Rounds) {
				lastDel = time.Now()
				break
			}
		}
		time.Sleep(2 * time.Millisecond)
	}
	h.mu.Lock()
	settle := h.reassoc > 0 && !dies
	h.mu.Unlock()
	if settle {
		// two monitors were at work for a while (the one of the old association finishes its request): requests
		// overlap, so the appearance of the next sequence number does not mean that the previous one is settled
		time.Sleep(time.Duration(c.N+1) * resp)
	}
	if dies {
		// wait (>= 10x nominal) until the dead peer's sessions are gone
		end := time.Now().Add(10*time.Duration(c.N+1)*resp + 3*time.Second)
		for time.Now().Before(end) {
			if s := r.B.Snap(); len(s.PDR)+len(s.FAR)+len(s.AppQ)+len(s.SessQ) == 0 {
				break
			}
			time.Sleep(2 * time.Millisecond)
		}
		time.Sleep(resp) // nothing may be transmitted after the verdict
	}
	_ = lastDel
	reqs := p.HBSeen()
	if len(reqs) == 0 {
		return fmt.Errorf("the agent never sent a Heartbeat Request within %v of an association with heart_beat_interval %dms", time.Since(t0), c.HBMs)
	}
	// group by sequence number
	bySeq := map[uint32][]rig.HBReq{}
	var order []uint32
	for _, q := range reqs {
		if _, ok := bySeq[q.Seq]; !ok {
			order = append(order, q.Seq)
		}
		bySeq[q.Seq] = append(bySeq[q.Seq], q)
	}
	nontriv := false
	for ri, seq := range order {
		txs := bySeq[seq]
		if len(txs) > c.N+1 {
			return fmt.Errorf("request seq %d was transmitted %d times, more than 1 + max_req_retries = %d", seq, len(txs), c.N+1)
		}
		for i := 1; i < len(txs); i++ {
			if d := txs[i].TS.Sub(txs[i-1].TS); d < resp-2*time.Millisecond {
				return fmt.Errorf("request seq %d: transmissions %d and %d are only %v apart (resp_timeout %v)", seq, i, i+1, d, resp)
			}
			if string(txs[i].Raw) != string(txs[0].Raw) {
				return fmt.Errorf("request seq %d: retransmission %d differs from the first transmission", seq, i+1)
			}
		}
		h.mu.Lock()
		ans, wasAnswered := h.answered[seq]
		h.mu.Unlock()
		if wasAnswered {
			for _, tx := range txs {
				if tx.TS.After(ans.Add(resp)) {
					if st := maxStall(ans.Add(-resp), tx.TS.Add(5*time.Millisecond)); st > 25*time.Millisecond {
						return fmt.Errorf("DISCARD: the test process went unscheduled for %v while the agent had an answer to act on; the verdict would have been: request seq %d retransmitted %v after its answer was sent", st, seq, tx.TS.Sub(ans))
					}
					return fmt.Errorf("request seq %d was retransmitted %v after its answer was sent (resp_timeout %v)", seq, tx.TS.Sub(ans), resp)
				}
			}
		}
		if ri < len(c.Rounds) {
			rd := c.Rounds[ri]
			if rd.K > 1 || rd.Special != "" {
				nontriv = true
			}
			if rd.K > 0 && len(txs) < rd.K {
				return fmt.Errorf("round %d: only %d transmission(s) of seq %d although none was answered before the %d-th (the request was given up early)", ri, len(txs), seq, rd.K)
			}
			if rd.K == 0 && len(txs) != c.N+1 {
				return fmt.Errorf("round %d: unanswered request seq %d was transmitted %d times, want 1 + max_req_retries = %d", ri, seq, len(txs), c.N+1)
			}
		}
	}
	// a heartbeat from the peer postpones the agent's next one, also while one of the agent's own is outstanding
	h.mu.Lock()
	peerHB := append([]time.Time(nil), h.peerHB...)
	h.mu.Unlock()
	hbI := time.Duration(c.HBMs) * time.Millisecond
	for _, at := range peerHB {
		for _, seq := range order {
			first := bySeq[seq][0].TS
			if first.After(at.Add(5*time.Millisecond)) && first.Before(at.Add(hbI-40*time.Millisecond)) {
				return fmt.Errorf("the peer sent a Heartbeat Request while the agent's own was outstanding, yet the agent's next heartbeat (seq %d) followed only %v later (heart_beat_interval %v): the peer's heartbeat did not postpone it", seq, first.Sub(at), hbI)
			}
		}
		nontriv = true
	}
	// distinct requests use distinct sequence numbers by construction of the grouping; sequence numbers must not be reused later
	seen := map[uint32]int{}
	last := uint32(0)
	h.mu.Lock()
	interleaved := h.reassoc > 0
	h.mu.Unlock()
	for i, q := range reqs {
		// (after a re-association the monitor of the old association may still be retransmitting its request while the
		// new one sends its first: retransmissions then interleave with another request, which is no reuse)
		if q.Seq != last && !interleaved {
			if prev, dup := seen[q.Seq]; dup && prev != i {
				return fmt.Errorf("sequence number %d is used by two different requests", q.Seq)
			}
		}
		seen[q.Seq] = i
		last = q.Seq
	}
	// liveness of the association
	h.mu.Lock()
	nReassoc := h.reassoc
	h.mu.Unlock()
	if nReassoc > 0 {
		p.Drain() // the Association Setup Responses
		ev.Label("reassociation-into-outstanding-heartbeat")
	}
	probe := p.Probe(0x123456, 1500*time.Millisecond)
	_ = probe
	o := run.Exec(model.Op{Kind: "mod", Peer: 0, Seq: 900, Sess: 0, Note: "any", UpdFARs: []model.FAR{{ID: 2, Action: model.ActDROP, HasFwd: true}}})
	alive := c.Sess > 0 && o.Accepted
	if dies {
		if c.Sess > 0 {
			if s := r.B.Snap(); len(s.PDR)+len(s.FAR)+len(s.AppQ)+len(s.SessQ) != 0 {
				return fmt.Errorf("the peer answered none of the %d transmissions, yet its sessions are still installed %v after the last transmission", c.N+1, time.Since(reqs[len(reqs)-1].TS))
			}
			if alive {
				return fmt.Errorf("the peer answered none of the transmissions, yet its session is still known to the agent")
			}
			// removal must not precede last transmission + resp_timeout
			lastTx := reqs[len(reqs)-1].TS
			for _, cm := range r.B.LogSince(0) {
				_ = cm
			}
			_ = lastTx
		}
	} else if c.Sess > 0 && !alive {
		// every scripted round was answered: the association must still be there, unless an answer was slow
		slow := false
		h.mu.Lock()
		for seq, at := range h.answered {
			txs := bySeq[seq]
			if len(txs) > 0 && at.Sub(txs[len(txs)-1].TS) > resp/3 {
				slow = true
			}
		}
		h.mu.Unlock()
		if slow {
			ev.Label("slow-answer-tolerated")
		} else if st := maxStall(t0, time.Now()); st > 25*time.Millisecond {
			return fmt.Errorf("DISCARD: the test process went unscheduled for %v during the case; the verdict would have been: peer declared dead although every request was answered", st)
		} else {
			return fmt.Errorf("every request was answered (rounds %+v), yet the peer was declared dead: modification of its session answered cause %d noresp=%v", c.Rounds, o.Cause, o.NoResp)
		}
	}
	ev.Label(fmt.Sprintf("rounds=%d/dies=%v", len(c.Rounds), dies))
	ev.Case(c, nontriv, len(c.Rounds))
	return nil
}

func TestC12HB(t *testing.T) {
	ev := newEv("C12")
	ev.Rule = "fresh agent per case with heartbeats enabled (max_req_retries 1-4, resp_timeout 60-120 ms, heart_beat_interval 100-250 ms); per heartbeat round the scripted peer answers the k-th transmission (k = 1..N+1, optionally duplicated or preceded by wrong-sequence responses) or none; transmissions are grouped by sequence number with kernel receive timestamps; non-trivial = a round with k > 1 or a special response; distinct by case"
	ev.Assume = []string{"Go timers never fire early: spacing is asserted as a lower bound (resp_timeout - 2 ms)", "a retransmission is tolerated until one resp_timeout after the answer was sent",
		"an answer sent later than resp_timeout/3 after the transmission it answers makes the liveness outcome inconclusive (tolerated)"}
	runProp(t, ev, "hb", true, genC12, runC12)
}

// TestC12Enum: the complete loss-position enumeration for N in {1,2} (quick) / {1..4} (thorough).
func TestC12Enum(t *testing.T) {
	ev := newEv("C12")
	defer ev.write()
	ev.Rule = "fault enumeration: for each N the peer answers exactly the k-th transmission for every k = 1..N+1, and none"
	maxN := scale(2, 4)
	i := 0
	for n := 1; n <= maxN; n++ {
		for k := 0; k <= n+1; k++ {
			i++
			if i%nShards != shard {
				continue
			}
			c := c12Case{N: n, RespMs: 60, HBMs: 100, Sess: 1, Rounds: []c12Round{{K: k}}}
			if k != 0 {
				c.Rounds = append(c.Rounds, c12Round{K: 1})
			}
			if err := runC12(c, ev); err != nil {
				failNow(t, ev, "hb", c, err)
			}
		}
	}
	ev.Exhaust = true
}

// ---- peer-originated heartbeats, recovery time stamp, features, connectivity gate ----

type c12Setup struct {
	UP4     bool     `json:"up4,omitempty"`
	UEAlloc bool     `json:"uealloc"`
	EndM    bool     `json:"endm"`
	HBMs    int      `json:"hb_ms"`
	Steps   []string `json:"steps"` // hb | assoc | assocnew (setup of a restarted peer: newer Recovery Time Stamp) | down | up | wait | peerhbburst
}

func genC12Setup(t *rapid.T) c12Setup {
	c := c12Setup{UEAlloc: rapid.Bool().Draw(t, "uealloc"), EndM: rapid.Bool().Draw(t, "endm"), HBMs: rapid.SampledFrom([]int{0, 200, 300}).Draw(t, "hb")}
	// every fourth case runs on the P4Runtime datapath (the switch stays connected: the reconnect path of the
	// plug-in sleeps for 10 s; features, time stamps and heartbeats are checked there, and every attempt is accepted)
	c.UP4 = rapid.IntRange(0, 3).Draw(t, "up4") == 0
	n := rapid.IntRange(2, 9).Draw(t, "n")
	steps := []string{"hb", "hb", "assoc", "assoc", "assocnew", "down", "up", "wait", "peerhbburst"}
	if c.UP4 {
		steps = []string{"hb", "hb", "assoc", "assoc", "assocnew", "wait", "peerhbburst"}
	}
	for i := 0; i < n; i++ {
		c.Steps = append(c.Steps, rapid.SampledFrom(steps).Draw(t, "step"))
	}
	return c
}

func featuresOf(m message.Message) ([]byte, *ie.IE, *ie.IE, *ie.IE) {
	switch x := m.(type) {
	case *message.AssociationSetupResponse:
		if x.UPFunctionFeatures != nil {
			return x.UPFunctionFeatures.Payload, x.RecoveryTimeStamp, x.Cause, x.NodeID
		}
		return nil, x.RecoveryTimeStamp, x.Cause, x.NodeID
	case *message.AssociationSetupRequest:
		if x.UPFunctionFeatures != nil {
			return x.UPFunctionFeatures.Payload, x.RecoveryTimeStamp, nil, x.NodeID
		}
		return nil, x.RecoveryTimeStamp, nil, x.NodeID
	}
	return nil, nil, nil, nil
}

func checkFeatures(f []byte, uealloc, endm bool, what string) error {
	if len(f) < 3 {
		return fmt.Errorf("%s: UP Function Features missing or shorter than 3 octets (%x)", what, f)
	}
	if f[0]&0x10 == 0 {
		return fmt.Errorf("%s: FTUP (F-TEID allocation by the UP function) not advertised (%x)", what, f)
	}
	if (f[2]&0x04 != 0) != uealloc {
		return fmt.Errorf("%s: UEIP feature bit is %v but UE IP allocation enabled=%v (%x)", what, f[2]&0x04 != 0, uealloc, f)
	}
	if (f[1]&0x01 != 0) != endm {
		return fmt.Errorf("%s: EMPU feature bit is %v but end markers enabled=%v (%x)", what, f[1]&0x01 != 0, endm, f)
	}
	return nil
}

func runC12Setup(c c12Setup, ev *Ev) error {
	r, err := newRig(RigOpts{UP4: c.UP4, EndMarker: c.EndM, Mut: func(conf *pfcpiface.Conf) {
		conf.CPIface.EnableUeIPAlloc = c.UEAlloc
		conf.CPIface.UEIPPool = "10.250.0.0/16"
		if c.HBMs > 0 {
			conf.EnableHBTimer = true
			conf.HeartBeatInterval = fmt.Sprintf("%dms", c.HBMs)
			conf.RespTimeout = "100ms"
			conf.MaxReqRetries = 3
		}
	}})
	if err != nil {
		return fmt.Errorf("INFRA: %v", err)
	}
	run, err := r.newRunner(1)
	if err != nil {
		return fmt.Errorf("INFRA: %v", err)
	}
	defer run.Close()
	p := run.Peers[0].P
	var assocTS, firstTS *time.Time
	down := false
	changed := time.Now().Add(-time.Second)
	seq := uint32(10)
	sawBoth := map[bool]bool{}
	restarts := 0
	for i, st := range c.Steps {
		seq++
		switch st {
		case "hb", "peerhbburst":
			n := 1
			if st == "peerhbburst" {
				n = 4
			}
			for k := 0; k < n; k++ {
				seq++
				before := len(p.HBSeen())
				sent := time.Now()
				raw, _, _, err := p.Request(model.Heartbeat(seq), 2*time.Second)
				if err != nil {
					return fmt.Errorf("step %d: peer Heartbeat Request not answered (associated=%v): %v", i, assocTS != nil, err)
				}
				m, perr := message.Parse(raw)
				hr, ok := m.(*message.HeartbeatResponse)
				if perr != nil || !ok || hr.Sequence() != seq {
					return fmt.Errorf("step %d: answer to the peer's heartbeat is not a Heartbeat Response with its sequence number", i)
				}
				if hr.RecoveryTimeStamp == nil {
					return fmt.Errorf("step %d: Heartbeat Response without Recovery Time Stamp", i)
				}
				ts, err := hr.RecoveryTimeStamp.RecoveryTimeStamp()
				if err != nil {
					return fmt.Errorf("step %d: Recovery Time Stamp unreadable", i)
				}
				if firstTS == nil {
					firstTS = &ts
				} else if !ts.Equal(*firstTS) {
					return fmt.Errorf("step %d: Recovery Time Stamp changed from %v to %v during the life of the association", i, *firstTS, ts)
				}
				if assocTS != nil && !ts.Equal(*assocTS) {
					return fmt.Errorf("step %d: heartbeat Recovery Time Stamp %v differs from the one in the Association Setup Response %v", i, ts, *assocTS)
				}
				// an answered peer heartbeat postpones the agent's own next heartbeat
				if c.HBMs > 0 && assocTS != nil {
					quiet := time.Duration(c.HBMs)*time.Millisecond - 60*time.Millisecond
					time.Sleep(quiet)
					for _, q := range p.HBSeen()[before:] {
						if q.TS.After(sent.Add(15*time.Millisecond)) && q.TS.Before(sent.Add(quiet)) {
							return fmt.Errorf("step %d: the agent sent its own heartbeat %v after answering the peer's (interval %dms): the peer's heartbeat did not postpone it", i, q.TS.Sub(sent), c.HBMs)
						}
					}
				}
			}
		case "assoc", "assocnew":
			aop := opAssoc(0, seq)
			if st == "assocnew" {
				// the peer restarted: its Recovery Time Stamp is newer than the one on record
				restarts++
				aop.TSOffset = 5 * restarts
			} else {
				aop.TSOffset = 5 * restarts
			}
			o := run.Exec(aop)
			if o.NoResp {
				return fmt.Errorf("step %d: Association Setup Request not answered", i)
			}
			f, rts, _, _ := featuresOf(o.Resp)
			if err := checkFeatures(f, c.UEAlloc, c.EndM, fmt.Sprintf("step %d: Association Setup Response (accepted=%v)", i, o.Accepted)); err != nil {
				return err
			}
			if c.UP4 {
				// the switch is connected throughout (newRig waited for the pipeline and a warm-up association)
				if !o.Accepted {
					return fmt.Errorf("step %d: association rejected (cause %d) although the P4Runtime datapath is connected", i, o.Cause)
				}
				ev.Label("up4-setup")
			}
			conns, since := int64(1), time.Time{}
			if r.B != nil {
				conns, since = r.B.Conns()
			}
			stable := time.Since(since) > 60*time.Millisecond && time.Since(changed) > 60*time.Millisecond
			if stable && r.B != nil {
				if conns > 0 && !down && !o.Accepted {
					return fmt.Errorf("step %d: association rejected (cause %d) although the datapath connection has been up for %v", i, o.Cause, time.Since(since))
				}
				if conns == 0 && o.Accepted {
					return fmt.Errorf("step %d: association accepted although the datapath has been disconnected for %v", i, time.Since(since))
				}
			}
			sawBoth[o.Accepted] = true
			if o.Accepted && rts != nil {
				ts, err := rts.RecoveryTimeStamp()
				if err == nil {
					if firstTS != nil && !ts.Equal(*firstTS) {
						return fmt.Errorf("step %d: Association Setup Response carries Recovery Time Stamp %v but heartbeats answered %v", i, ts, *firstTS)
					}
					assocTS = &ts
					if firstTS == nil {
						firstTS = &ts
					}
				}
			}
		case "down":
			if !down {
				r.B.Stop()
				down, changed = true, time.Now()
			}
		case "up":
			if down {
				if err := r.B.Restart(); err != nil {
					return fmt.Errorf("INFRA: %v", err)
				}
				down, changed = false, time.Now()
			}
		case "wait":
			time.Sleep(80 * time.Millisecond)
		}
	}
	ev.Label(fmt.Sprintf("uealloc=%v/endm=%v/hb=%v", c.UEAlloc, c.EndM, c.HBMs > 0))
	ev.Case(c, sawBoth[true] && sawBoth[false], len(c.Steps))
	return nil
}

func TestC12Setup(t *testing.T) {
	ev := newEv("C12")
	ev.Rule = "fresh agent per case (BESS; every fourth case UP4 with the switch connected throughout) over the 4 feature configurations (UE-IP allocation x end markers) with heartbeats off/on; generated sequences of peer heartbeats (before and after association, bursts), association attempts (repeated with the same and, for a restarted peer, with a newer Recovery Time Stamp), and datapath down/up (harness BESS server stopped and restarted); checks: every peer heartbeat answered, one Recovery Time Stamp for the life of the association and equal to the setup response's, peer heartbeats postpone the agent's own, advertised UP features in accepted and rejected responses, acceptance iff a datapath transport connection has been up (rejection iff none) for >= 60 ms; non-trivial = a case with an accepted and a rejected association attempt"
	runProp(t, ev, "setup", true, genC12Setup, runC12Setup)
}

// ---- agent-initiated association (cpiface.peers) ----

type c12Init struct {
	N       int  `json:"n"`
	RespMs  int  `json:"resp_ms"`
	K       int  `json:"k"` // answer the k-th transmission, 0 = none
	Reject  bool `json:"reject"`
	UEAlloc bool `json:"uealloc"`
}

func runC12Init(c c12Init, ev *Ev) error {
	peerIP := fmt.Sprintf("127.0.%d.%d", 200+shard%50, 2+int(caseSeq.Add(1)%250))
	lp, err := rig.NewPeer(net.JoinHostPort(peerIP, "8805"), "127.0.0.1:1")
	if err != nil {
		return fmt.Errorf("INFRA: %v", err)
	}
	defer lp.Close()
	r, err := newRig(RigOpts{Mut: func(conf *pfcpiface.Conf) {
		conf.CPIface.Peers = []string{peerIP}
		conf.RespTimeout = fmt.Sprintf("%dms", c.RespMs)
		conf.MaxReqRetries = uint8(c.N)
		conf.CPIface.EnableUeIPAlloc = c.UEAlloc
		conf.CPIface.UEIPPool = "10.250.0.0/16"
	}})
	if err != nil {
		return fmt.Errorf("INFRA: %v", err)
	}
	resp := time.Duration(c.RespMs) * time.Millisecond
	agent, _ := net.ResolveUDPAddr("udp4", r.A.PFCPAddr())
	var txs []rig.Dgram
	deadline := time.Now().Add(time.Duration(c.N+2)*resp + 500*time.Millisecond)
	var answeredAt time.Time
	for time.Now().Before(deadline) {
		d, err := lp.Recv(20 * time.Millisecond)
		if err != nil {
			continue
		}
		m, perr := message.Parse(d.B)
		if perr != nil {
			return fmt.Errorf("agent-originated datagram does not parse: %x", d.B)
		}
		ar, ok := m.(*message.AssociationSetupRequest)
		if !ok {
			continue
		}
		txs = append(txs, d)
		f, _, _, nid := featuresOf(ar)
		if err := checkFeatures(f, c.UEAlloc, false, "agent-originated Association Setup Request"); err != nil {
			return err
		}
		if nid == nil {
			return fmt.Errorf("agent-originated Association Setup Request without Node ID")
		}
		if c.K != 0 && len(txs) == c.K {
			cause := uint8(ie.CauseRequestAccepted)
			if c.Reject {
				cause = ie.CauseRequestRejected
			}
			answeredAt = time.Now()
			_ = lp.SendRawTo(model.Marshal(message.NewAssociationSetupResponse(ar.Sequence(), ie.NewNodeID(peerIP, "", ""), ie.NewCause(cause), ie.NewRecoveryTimeStamp(model.PeerTS))), agent)
		}
	}
	if len(txs) == 0 {
		return fmt.Errorf("the agent never sent an Association Setup Request to its configured peer %s", peerIP)
	}
	if len(txs) > c.N+1 {
		return fmt.Errorf("Association Setup Request transmitted %d times, more than 1 + max_req_retries = %d", len(txs), c.N+1)
	}
	for i := 1; i < len(txs); i++ {
		if string(txs[i].B) != string(txs[0].B) {
			return fmt.Errorf("retransmission %d of the Association Setup Request differs from the first (sequence number must not change)", i+1)
		}
		if d := txs[i].TS.Sub(txs[i-1].TS); d < resp-2*time.Millisecond {
			return fmt.Errorf("Association Setup Request transmissions %d and %d only %v apart (resp_timeout %v)", i, i+1, d, resp)
		}
	}
	if c.K == 0 && len(txs) != c.N+1 {
		return fmt.Errorf("unanswered Association Setup Request transmitted %d times, want %d", len(txs), c.N+1)
	}
	if c.K != 0 {
		if len(txs) < c.K {
			return fmt.Errorf("only %d transmissions, the %d-th was to be answered", len(txs), c.K)
		}
		for _, tx := range txs {
			if tx.TS.After(answeredAt.Add(resp)) {
				if st := maxStall(answeredAt.Add(-resp), tx.TS.Add(5*time.Millisecond)); st > 25*time.Millisecond {
					return fmt.Errorf("DISCARD: the test process went unscheduled for %v while the agent had an answer to act on; the verdict would have been: Association Setup Request retransmitted %v after its answer", st, tx.TS.Sub(answeredAt))
				}
				return fmt.Errorf("Association Setup Request retransmitted %v after its answer", tx.TS.Sub(answeredAt))
			}
		}
	}
	ev.Label(fmt.Sprintf("k=%d/reject=%v", c.K, c.Reject))
	ev.Case(c, c.K != 1, c.N)
	return nil
}

func TestC12Init(t *testing.T) {
	ev := newEv("C12")
	ev.Rule = "agent-initiated association (cpiface.peers; the scripted peer is bound to :8805): the k-th transmission of the Association Setup Request is answered (accepted or rejected) for k = 1..N+1, or none; count, identical bytes (same sequence number), spacing and advertised features are checked; non-trivial = k != 1"
	runProp(t, ev, "init", true, func(rt *rapid.T) c12Init {
		n := rapid.IntRange(1, 3).Draw(rt, "n")
		return c12Init{N: n, RespMs: rapid.SampledFrom([]int{60, 100}).Draw(rt, "resp"), K: rapid.IntRange(0, n+1).Draw(rt, "k"), Reject: rapid.Bool().Draw(rt, "reject"), UEAlloc: rapid.Bool().Draw(rt, "uealloc")}
	}, runC12Init)
}

func init() {
	registerFns = append(registerFns, func() {
		registerReplay("C12", "hb", runC12)
		registerReplay("C12", "setup", runC12Setup)
		registerReplay("C12", "init", runC12Init)
	})
}
