//go:build verif

package props

import (
	"encoding/hex"
	"fmt"
	"strings"
	"testing"
	"time"

	"github.com/omec-project/upf-epc/pfcpiface"
	"github.com/wmnsk/go-pfcp/ie"
	"github.com/wmnsk/go-pfcp/message"
	"pgregory.net/rapid"

	"verif/harness/model"
	"verif/harness/rig"
	"verif/harness/sim"
)

// ---------- C05: ending a session reclaims everything it ever acquired ----------

type c05Case struct {
	UP4    bool       `json:"up4,omitempty"`
	Pool   string     `json:"pool"`
	Ending string     `json:"ending"` // del | release | silence | hbfail | srr404
	Ops    []model.Op `json:"ops"`
	Cycles int        `json:"cycles"`
	// InFlight (ending hbfail only): a Session Establishment asking for a UE address and an F-TEID is sent
	// LeadMs before the instant at which the agent gives the peer up, while the datapath stand-in serves
	// every command DelayMs late - the teardown then begins while that request is being handled
	InFlight bool `json:"inflight,omitempty"`
	LeadMs   int  `json:"lead_ms,omitempty"`
	DelayMs  int  `json:"delay_ms,omitempty"`
}

func c05Sess(idx int, alloc, choose bool, bad string) model.Op {
	op := model.Op{Kind: "est", Peer: 0, Seq: uint32(100 + idx), Sess: idx, CPSEID: uint64(700 + idx)}
	up := model.PDR{ID: 1, Prec: 10, Src: "access", FTEID: true, OHR: true, FAR: 1, QERs: []uint32{1}}
	if choose {
		up.Choose = true
	} else {
		up.TEID, up.N3 = uint32(0xa000+idx), accessIP()
	}
	dn := model.PDR{ID: 2, Prec: 10, Src: "core", HasUE: true, FAR: 2, QERs: []uint32{1}}
	if alloc {
		dn.UEAlloc = true
	} else {
		dn.UEIP = fmt.Sprintf("10.64.0.%d", idx%250+1)
	}
	op.PDRs = []model.PDR{up, dn}
	op.FARs = []model.FAR{{ID: 1, Action: model.ActFORW, HasFwd: true, DstIf: model.IfCore},
		{ID: 2, Action: model.ActFORW, HasFwd: true, DstIf: model.IfAccess, HasOHC: true, TEID: uint32(50 + idx), Peer: fmt.Sprintf("198.18.4.%d", 2+idx%3)}}
	op.QERs = []model.QER{{ID: 1, QFI: 9, MBRUL: 1000, MBRDL: 2000}}
	switch bad {
	case "badpdr": // a third PDR that is refused after the first two have allocated
		op.PDRs = append(op.PDRs, model.PDR{ID: 3, Prec: 10, Src: "cp", FAR: 1})
		op.Note = "bad"
	case "badfar": // a FAR without a usable action
		op.FARs = append(op.FARs, model.FAR{ID: 9, Action: 0})
		op.Note = "bad"
	case "wrongnode":
		op.NodeID = "172.31.77.77"
		op.Note = "bad"
	case "firstpdr": // the very first PDR draws a UE address and is refused afterwards (unknown application)
		op.PDRs = []model.PDR{{ID: 2, Prec: 10, Src: "core", HasUE: true, UEAlloc: true, AppID: "no-such-app", FAR: 2, QERs: []uint32{1}}, up}
		op.Note = "bad"
	}
	return op
}

func genC05(t *rapid.T) c05Case {
	c := c05Case{UP4: rapid.IntRange(0, 2).Draw(t, "up4") == 0, Pool: rapid.SampledFrom([]string{"10.250.0.8/29", "10.250.0.4/30"}).Draw(t, "pool"),
		Ending: rapid.SampledFrom([]string{"del", "release", "release", "srr404", "silence", "hbfail"}).Draw(t, "ending")}
	capN := 6
	if c.Pool == "10.250.0.4/30" {
		capN = 2
	}
	if c.Ending == "hbfail" && rapid.Bool().Draw(t, "inflight") {
		c.InFlight, c.LeadMs, c.DelayMs = true, rapid.IntRange(0, 14).Draw(t, "lead"), rapid.SampledFrom([]int{5, 15}).Draw(t, "delay")
		capN-- // room for the in-flight establishment
	}
	c.Cycles = capN + 2
	c.Ops = append(c.Ops, opAssoc(0, 1))
	n := rapid.IntRange(1, 8).Draw(t, "n")
	sess := 0
	liveSet := map[int]bool{}
	var chose []int // sessions established with a CHOOSE F-TEID
	for i := 0; i < n; i++ {
		live := len(liveSet)
		kinds := []string{"est", "est", "estbad", "estbad", "modrej", "mod", "del", "strip", "reassoc", "modteid"}
		if c.UP4 {
			kinds = append(kinds, "estp4", "modp4", "modp4")
		}
		switch rapid.SampledFrom(kinds).Draw(t, "k") {
		case "estp4":
			// an establishment one of whose P4Runtime writes fails (or none, when k lies beyond its last write): it
			// is rejected after identifiers were allocated and entries written; all of that must be given back
			if live >= capN {
				continue
			}
			op := c05Sess(sess, rapid.Bool().Draw(t, "alloc"), rapid.Bool().Draw(t, "choose"), "")
			op.Note = "p4"
			op.Extra = map[string]any{"p4fail": rapid.IntRange(1, 7).Draw(t, "failk"), "p4code": rapid.SampledFrom([]string{"UNAVAILABLE", "INVALID_ARGUMENT", "RESOURCE_EXHAUSTED"}).Draw(t, "code")}
			c.Ops = append(c.Ops, op)
			liveSet[sess] = true
			sess++
		case "modp4":
			// a modification (handover to a new gNB, or the UE going idle) one of whose P4Runtime writes fails: the
			// request is rejected, the session keeps its old rules, and whatever the attempt acquired on the way (a
			// tunnel peer for the new gNB, say) must not outlive the session
			if sess == 0 {
				continue
			}
			si := rapid.IntRange(0, sess-1).Draw(t, "si")
			nf := model.FAR{ID: 2, Action: model.ActFORW, HasFwd: true, DstIf: model.IfAccess, HasOHC: true, TEID: uint32(900 + i), Peer: rapid.SampledFrom([]string{"198.18.7.7", "198.18.7.8", "198.18.4.2"}).Draw(t, "p4peer")}
			if rapid.IntRange(0, 2).Draw(t, "idle") == 0 {
				nf = model.FAR{ID: 2, Action: rapid.SampledFrom([]uint8{model.ActBUFF | model.ActNOCP, model.ActDROP}).Draw(t, "idleaction"), HasFwd: true}
			}
			c.Ops = append(c.Ops, model.Op{Kind: "mod", Peer: 0, Seq: uint32(300 + i), Sess: si, Note: "any", UpdFARs: []model.FAR{nf},
				Extra: map[string]any{"p4fail": rapid.IntRange(1, 4).Draw(t, "failk"), "p4code": rapid.SampledFrom([]string{"UNAVAILABLE", "INVALID_ARGUMENT", "RESOURCE_EXHAUSTED"}).Draw(t, "code")}})
		case "modteid":
			// Update PDR of the uplink PDR: the control plane restates it with an explicit F-TEID - the TEID the UP
			// function chose for it (filled in at run time), or, on UP4, one of its own. A chosen TEID stays the
			// session's until it ends; one that the rule has left may be released at once or with the session.
			if len(chose) == 0 {
				continue
			}
			si := chose[rapid.IntRange(0, len(chose)-1).Draw(t, "si")]
			np := model.PDR{ID: 1, Prec: 10, Src: "access", FTEID: true, OHR: true, FAR: 1, QERs: []uint32{1}, N3: accessIP()}
			op := model.Op{Kind: "mod", Peer: 0, Seq: uint32(300 + i), Sess: si, Note: "any", Extra: map[string]any{"teid": "echo"}}
			if c.UP4 && rapid.Bool().Draw(t, "ownteid") {
				np.TEID = uint32(0xb000 + 16*si + i)
				op.Extra["teid"] = "own"
			}
			op.UpdPDRs = []model.PDR{np}
			c.Ops = append(c.Ops, op)
		case "reassoc":
			// the peer sets the association up again on the same connection under another Node ID (a control plane
			// that restarted and now names itself by FQDN or by another address); its sessions are kept
			c.Ops = append(c.Ops, model.Op{Kind: "assoc", Peer: 0, Seq: uint32(500 + i), NodeID: rapid.SampledFrom([]string{"smf.core.example", "172.31.0.77", "172.31.0.1"}).Draw(t, "newnode")})
		case "strip":
			// a modification that removes every PDR: the session lives on without PDRs
			if sess == 0 {
				continue
			}
			si := rapid.IntRange(0, sess-1).Draw(t, "si")
			c.Ops = append(c.Ops, model.Op{Kind: "mod", Peer: 0, Seq: uint32(300 + i), Sess: si, Note: "any", RemPDRs: []uint16{1, 2}})
		case "est":
			if live >= capN {
				continue
			}
			ch := rapid.Bool().Draw(t, "choose")
			c.Ops = append(c.Ops, c05Sess(sess, rapid.Bool().Draw(t, "alloc"), ch, ""))
			liveSet[sess] = true
			if ch {
				chose = append(chose, sess)
			}
			sess++
		case "estbad":
			if excluded("estRejectedAfterAlloc") {
				continue
			}
			c.Ops = append(c.Ops, c05Sess(sess, rapid.Bool().Draw(t, "alloc"), rapid.Bool().Draw(t, "choose"),
				rapid.SampledFrom([]string{"badpdr", "badfar", "wrongnode", "firstpdr", "firstpdr"}).Draw(t, "bad")))
			sess++
		case "modrej":
			if sess == 0 || excluded("modRejectedHalfway") {
				continue
			}
			si := rapid.IntRange(0, sess-1).Draw(t, "si")
			// a modification that is rejected half-way: update applied, then removal of an unknown rule
			c.Ops = append(c.Ops, model.Op{Kind: "mod", Peer: 0, Seq: uint32(300 + i), Sess: si, Note: "any",
				UpdFARs: []model.FAR{{ID: 2, Action: model.ActBUFF | model.ActNOCP, HasFwd: true}},
				RemPDRs: []uint16{uint16(rapid.SampledFrom([]int{1, 99}).Draw(t, "rempdr"))}, RemFARs: []uint32{77}})
		case "mod":
			if sess == 0 {
				continue
			}
			si := rapid.IntRange(0, sess-1).Draw(t, "si")
			nf := model.FAR{ID: 2, Action: model.ActFORW, HasFwd: true, DstIf: model.IfAccess, HasOHC: true, TEID: uint32(900 + i), Peer: "198.18.6.6"}
			if rapid.IntRange(0, 2).Draw(t, "idle") == 0 {
				// the UE goes idle and the control plane keeps stating the tunnel
				nf.Action = rapid.SampledFrom([]uint8{model.ActBUFF | model.ActNOCP, model.ActDROP}).Draw(t, "idleaction")
				nf.Peer = rapid.SampledFrom([]string{"198.18.6.6", "198.18.4.2"}).Draw(t, "idlepeer")
			}
			c.Ops = append(c.Ops, model.Op{Kind: "mod", Peer: 0, Seq: uint32(300 + i), Sess: si, Note: "any", UpdFARs: []model.FAR{nf}})
		case "del":
			if sess == 0 {
				continue
			}
			di := rapid.IntRange(0, sess-1).Draw(t, "si")
			c.Ops = append(c.Ops, model.Op{Kind: "del", Peer: 0, Seq: uint32(400 + i), Sess: di, Note: "any"})
			delete(liveSet, di)
		}
	}
	return c
}

func poolCap(cidr string) int {
	if cidr == "10.250.0.4/30" {
		return 2
	}
	return 6
}

// c05Invariant checks tables, gauge and pool conservation against the live sessions of the model.
func c05Invariant(r *Rig, run *sim.Runner, c c05Case, when string) error {
	live := run.LiveSessions()
	if r.P4 != nil {
		r.P4.WaitQuiet(5 * time.Second)
		env := sim.UP4Env{AccessIP: model.IP2U("198.18.0.1"), AccessLen: 32, PoolNet: model.IP2U(strings.Split(c.Pool, "/")[0]) & model.MaskOf(poolLen(c.Pool)), PoolLen: poolLen(c.Pool), DefaultTC: 3}
		if _, err := run.CheckUP4Image(r.P4.Snap(), env, sim.UP4Opts{Meters: true}); err != nil {
			return fmt.Errorf("%s: %w", when, err)
		}
	}
	if r.B != nil {
		r.B.WaitQuiet(5 * time.Second)
		if err := run.CheckBessImage(r.B.Snap(), bessEnv(), sim.BessImageOpts{QER: true}); err != nil {
			where := ""
			for _, s := range live {
				where += fmt.Sprintf(" session %d fseid %d seen at:%s;", s.Idx, s.UPSEID, rig.FindKey(fmt.Sprint(s.UPSEID)))
			}
			return fmt.Errorf("%s: %w\n%s\n%s", when, err, where, cmdDiag(r))
		}
	}
	g, err := r.A.SessionsGauge()
	if err != nil {
		return fmt.Errorf("INFRA: gauge: %v", err)
	}
	if int(g) != len(live) {
		return fmt.Errorf("%s: pfcp_sessions gauge is %v but %d session(s) are live", when, g, len(live))
	}
	// the gauge is one series per Node ID: each session's unit sits in the series of the Node ID its peer had
	// when the session was established, and leaves that series when the session ends
	series, err := r.A.SessionsGaugeSeries()
	if err != nil {
		return fmt.Errorf("INFRA: gauge: %v", err)
	}
	wantSeries := map[string]float64{}
	for _, s := range live {
		wantSeries[s.NodeID]++
	}
	for l, v := range series {
		if v != wantSeries[l] {
			return fmt.Errorf("%s: pfcp_sessions{node_id=%q} is %v but %v live session(s) were established under that Node ID (all series: %v)", when, l, v, wantSeries[l], series)
		}
	}
	for l, v := range wantSeries {
		if series[l] != v {
			return fmt.Errorf("%s: pfcp_sessions{node_id=%q} is %v but %v live session(s) were established under that Node ID (all series: %v)", when, l, series[l], v, series)
		}
	}
	pools := r.A.Iface.VerifPools()
	wantIP, wantTEID := 0, 0
	for _, s := range live {
		for _, p := range s.PDRs {
			if p.UEAlloc {
				wantIP = wantIP + 0 // counted per session below
			}
		}
		if len(s.AllocUE) > 0 {
			wantIP++
		}
		wantTEID += len(s.ChosenTEID)
	}
	if pools["ip_held"] != wantIP || pools["ip_free"]+pools["ip_held"] != poolCap(c.Pool) {
		return fmt.Errorf("%s: UE IP pool holds %d addresses (free %d) but live sessions hold %d (capacity %d)", when, pools["ip_held"], pools["ip_free"], wantIP, poolCap(c.Pool))
	}
	limbo := 0 // TEIDs chosen for PDRs of live sessions that have since moved to a TEID of the control plane's own
	for _, s := range live {
		limbo += r.LimboTEID[s.Idx]
	}
	if pools["teid_held"] < wantTEID || pools["teid_held"] > wantTEID+limbo {
		return fmt.Errorf("%s: %d UP-chosen TEIDs are still allocated but live sessions hold %d (and left %d more behind by Update PDR)", when, pools["teid_held"], wantTEID, limbo)
	}
	if r.P4 != nil && r.Base != nil {
		nPDR, nQ := 0, 0
		for _, s := range live {
			nPDR += len(s.PDRs)
			nQ += len(s.QERs)
		}
		if pools["ctr_free"] != r.Base["ctr_free"]-nPDR {
			return fmt.Errorf("%s: %d counter cells are free, want %d (capacity) - %d (live PDRs)", when, pools["ctr_free"], r.Base["ctr_free"], nPDR)
		}
		if pools["meters"] != nQ {
			return fmt.Errorf("%s: the plug-in tracks %d meters but live sessions have %d QERs", when, pools["meters"], nQ)
		}
		if len(live) == 0 {
			for _, k := range []string{"appmeter_free", "sessmeter_free", "tnlpeer_free", "app_free", "tnlpeer_held", "app_held", "ue2fseid", "fseid2ue"} {
				if pools[k] != r.Base[k] {
					return fmt.Errorf("%s: with no live session %s is %d, want the start-up value %d", when, k, pools[k], r.Base[k])
				}
			}
		}
	}
	return nil
}

func poolLen(cidr string) int {
	var a, b, c, d, l int
	fmt.Sscanf(cidr, "%d.%d.%d.%d/%d", &a, &b, &c, &d, &l)
	return l
}

func runC05(c c05Case, ev *Ev) error {
	r, err := newRig(RigOpts{UP4: c.UP4, Mut: func(conf *pfcpiface.Conf) {
		conf.CPIface.EnableUeIPAlloc = true
		conf.CPIface.UEIPPool = c.Pool
		switch c.Ending {
		case "silence":
			conf.ReadTimeout = 1
		case "hbfail":
			conf.EnableHBTimer = true
			conf.HeartBeatInterval = "40ms"
			conf.RespTimeout = "60ms"
			conf.MaxReqRetries = 2
		}
	}})
	if err != nil {
		return fmt.Errorf("INFRA: %v", err)
	}
	r.Base = r.A.Iface.VerifPools()
	run, err := r.newRunner(2)
	if err != nil {
		return fmt.Errorf("INFRA: %v", err)
	}
	defer run.Close()
	rejected := 0
	faulted := false
	for i, op := range c.Ops {
		if fk, ok := op.Extra["p4fail"]; ok && r.P4 != nil {
			k := 0
			switch v := fk.(type) {
			case int:
				k = v
			case float64:
				k = int(v)
			}
			code, _ := op.Extra["p4code"].(string)
			r.P4.Arm(map[int]string{k: code})
			o := run.Exec(op)
			r.P4.WaitQuiet(2 * time.Second)
			fired, what := r.P4.Fired()
			r.P4.Arm(nil)
			if o.NoResp || !o.Alive {
				return fmt.Errorf("op %d (%s with failing P4Runtime write %d): no response (alive=%v)", i, op.Kind, k, o.Alive)
			}
			if fired > 0 && o.Accepted {
				// the failing write was a clean-up write (the removal of a tunnel peer that lost its last user) whose
				// failure the agent tolerates: the switch has refused a deletion, by the harness's doing, and nothing
				// the agent does later can be held against this property (C15 speaks about accepting such a request)
				return fmt.Errorf("DISCARD: failing clean-up write tolerated by an accepted %s; write %d carried %v", op.Kind, k, what)
			}
			if !o.Accepted {
				rejected++
				faulted = true
				ev.Label(op.Kind + "/rejected-by-p4-write-failure")
			}
			continue
		}
		if how, _ := op.Extra["teid"].(string); how != "" {
			s := run.Sess[op.Sess]
			var cur *model.PDR
			if s != nil && s.Live {
				for k := range s.PDRs {
					if s.PDRs[k].ID == 1 {
						cur = &s.PDRs[k]
					}
				}
			}
			if cur == nil || s.ChosenTEID[1] == 0 {
				continue // the session is gone, was stripped of its PDRs, or holds no chosen TEID any more
			}
			up := append([]model.PDR(nil), op.UpdPDRs...)
			if how == "echo" {
				up[0].TEID = s.ChosenTEID[1]
			}
			op.UpdPDRs = up
			o := run.Exec(op)
			if o.NoResp || !o.Alive {
				return fmt.Errorf("op %d (mod, Update PDR with explicit F-TEID): no response (alive=%v)", i, o.Alive)
			}
			if !o.Accepted && how == "own" {
				// UP4 may refuse to move a rule to another key (C04); a refused request changes nothing
				rejected++
				ev.Label("mod/update-pdr-fteid-own-refused")
				continue
			}
			if !o.Accepted {
				return fmt.Errorf("op %d: Update PDR restating the uplink PDR with the F-TEID %d that was chosen for it rejected (cause %d)", i, up[0].TEID, o.Cause)
			}
			if how == "own" {
				// nobody uses the chosen TEID any more
				delete(s.ChosenTEID, 1)
				delete(s.ChosenN3, 1)
				r.LimboTEID[op.Sess]++
			}
			ev.Label("mod/update-pdr-fteid-" + how)
			continue
		}
		o := run.Exec(op)
		if o.NoResp || !o.Alive {
			return fmt.Errorf("op %d (%s %s): no response (alive=%v)", i, op.Kind, op.Note, o.Alive)
		}
		if op.Kind == "est" && op.Note == "" && !o.Accepted {
			return fmt.Errorf("op %d: well-formed establishment rejected with cause %d (pool %s)", i, o.Cause, c.Pool)
		}
		if (op.Kind == "est" || op.Kind == "mod") && !o.Accepted {
			rejected++
		}
		if op.Kind == "mod" && !o.Accepted && len(op.RemPDRs) > 0 {
			// a modification rejected half-way: what the tables must hold afterwards is not specified;
			// only the final reclamation is asserted
			continue
		}
	}
	if err := c05Invariant(r, run, c, "before the ending"); err != nil {
		// intermediate divergence is reported under the ending it precedes only when the history had no half-way rejection
		// (the same goes for a request rejected because a switch write failed: C04 speaks about accepted requests)
		hasRej := faulted
		for _, op := range c.Ops {
			hasRej = hasRej || (op.Kind == "mod" && len(op.RemPDRs) > 0)
		}
		if !hasRej {
			return err
		}
	}
	ended := run.LiveSessions()
	p := run.Peers[0]
	switch c.Ending {
	case "del":
		for _, s := range ended {
			if o := run.Exec(model.Op{Kind: "del", Peer: 0, Seq: uint32(600 + s.Idx), Sess: s.Idx}); !o.Accepted {
				return fmt.Errorf("deletion of live session %d rejected (cause %d)", s.Idx, o.Cause)
			}
		}
	case "release":
		if o := run.Exec(opRelease(0, 601)); !o.Accepted {
			return fmt.Errorf("association release rejected")
		}
	case "srr404":
		for _, s := range ended {
			m := message.NewSessionReportResponse(0, 0, s.UPSEID, uint32(620+s.Idx), 0, ie.NewCause(ie.CauseSessionContextNotFound))
			run.Exec(model.Op{Kind: "raw", Peer: 0, Raw: hex.EncodeToString(model.Marshal(m))})
			s.Live = false
		}
	case "silence", "hbfail":
		if c.Ending == "hbfail" {
			since := time.Now()
			p.P.SetOnHB(func(int, uint32) (bool, time.Duration) { return false, 0 })
			if c.InFlight {
				d := time.Duration(c.DelayMs) * time.Millisecond
				if r.B != nil {
					r.B.Inject(func(b *rig.Bessd) { b.Delay = func(string, string) time.Duration { return d } })
				} else {
					r.P4.SetDelay(func() time.Duration { return d })
				}
				// the first heartbeat that goes unanswered is transmitted 1 + 2 times, 60 ms apart, and given up
				// 60 ms after the last transmission
				var verdict time.Time
				for w := time.Now().Add(3 * time.Second); verdict.IsZero() && time.Now().Before(w); time.Sleep(time.Millisecond) {
					for _, q := range p.P.HBSeen() {
						if q.TS.After(since) {
							verdict = q.TS.Add(180 * time.Millisecond)
							break
						}
					}
				}
				if !verdict.IsZero() {
					time.Sleep(time.Until(verdict.Add(-time.Duration(c.LeadMs) * time.Millisecond)))
					op := c05Sess(500, true, true, "")
					_ = p.P.Send(model.Establishment(0x7e0001, p.NodeID, op.CPSEID, p.IP, op))
				}
			}
		}
		// wait until the agent has declared the peer dead: its sessions leave the datapath
		deadline := time.Now().Add(15 * time.Second)
		for time.Now().Before(deadline) {
			g, _ := r.A.SessionsGauge()
			if r.B != nil {
				s := r.B.Snap()
				if len(s.PDR)+len(s.FAR)+len(s.AppQ)+len(s.SessQ) == 0 && g == 0 {
					break
				}
			} else if g == 0 {
				ps := r.P4.Snap()
				if len(ps.Tables["sessions_uplink"])+len(ps.Tables["sessions_downlink"])+len(ps.Tables["terminations_uplink"])+len(ps.Tables["terminations_downlink"]) == 0 {
					break
				}
			}
			time.Sleep(20 * time.Millisecond)
		}
		for _, s := range ended {
			s.Live = false
		}
		p.Assoc = false
		if c.InFlight {
			if r.B != nil {
				r.B.Inject(func(b *rig.Bessd) { b.Delay = nil })
				r.B.WaitQuiet(3 * time.Second)
			} else {
				r.P4.SetDelay(nil)
				r.P4.WaitQuiet(3 * time.Second)
			}
			time.Sleep(100 * time.Millisecond)
			p.P.Drain()
		}
	}
	if err := c05Invariant(r, run, c, "after ending by "+c.Ending); err != nil {
		return err
	}
	// the ended sessions are unknown now (checked on a connection that still exists / a fresh association)
	q := 1
	if c.Ending == "del" || c.Ending == "srr404" {
		q = 0
	} else {
		if o := run.Exec(opAssoc(1, 700)); !o.Accepted {
			return fmt.Errorf("fresh association after the ending not accepted")
		}
	}
	for _, s := range ended {
		o := run.Exec(model.Op{Kind: "del", Peer: q, Seq: uint32(720 + s.Idx), Sess: s.Idx, Addr: "foreign"})
		if o.Accepted {
			return fmt.Errorf("a deletion addressed to ended session %d (UP SEID %#x) was accepted", s.Idx, s.UPSEID)
		}
	}
	// more attach/detach cycles than the pool has addresses
	seen := map[string]bool{}
	for k := 0; k < c.Cycles; k++ {
		op := c05Sess(1000+k, true, true, "")
		op.Peer = q
		o := run.Exec(op)
		if !o.Accepted {
			return fmt.Errorf("attach/detach cycle %d of %d after ending by %s: establishment rejected with cause %d (pool %s exhausted?)", k+1, c.Cycles, c.Ending, o.Cause, c.Pool)
		}
		s := run.Sess[1000+k]
		for _, a := range s.AllocUE {
			seen[a] = true
		}
		if o := run.Exec(model.Op{Kind: "del", Peer: q, Seq: uint32(800 + k), Sess: 1000 + k}); !o.Accepted {
			return fmt.Errorf("cycle %d: deletion rejected", k+1)
		}
	}
	if err := c05Invariant(r, run, c, "after the attach/detach cycles"); err != nil {
		return err
	}
	ev.Label("ending/" + c.Ending)
	ev.Case(c, rejected >= 1 && c.Ending != "del", len(c.Ops))
	return nil
}

func TestC05(t *testing.T) {
	ev := newEv("C05")
	ev.Rule = "fresh agent per case with UE-IP allocation on a /29 or /30 pool; prefix history of accepted and rejected establishments/modifications (rejected after allocation: bad later PDR/FAR, wrong Node ID; modification rejected half-way; on UP4 establishments and Update FAR modifications whose k-th P4Runtime write fails), then one of the endings {Session Deletion, Association Release, Session Report Response 'context not found', peer silence past read_timeout, unanswered heartbeats}, then pool-size+2 attach/detach cycles; after the ending and after the cycles: table image of the live sessions only, pfcp_sessions gauge = live sessions, UE IP pool and F-TEID occupancy = what live sessions hold (hook), ended sessions unknown; non-trivial = at least one rejected request before an ending other than plain deletion; distinct by case"
	ev.Assume = []string{"timeout endings wait up to 15 s (>= 10x nominal) for the agent to declare the peer dead"}
	runProp(t, ev, "ending", true, genC05, runC05)
}

func init() {
	registerFns = append(registerFns, func() { registerReplay("C05", "ending", runC05) })
}
