package props

import (
	"fmt"

	"pgregory.net/rapid"

	"verif/harness/model"
)

func opAssoc(peer int, seq uint32) model.Op   { return model.Op{Kind: "assoc", Peer: peer, Seq: seq} }
func opRelease(peer int, seq uint32) model.Op { return model.Op{Kind: "release", Peer: peer, Seq: seq} }

// genSeq draws a 24-bit sequence number with boundary bias. The top quarter of the space is
// left to the probe only in the sense that probes pick a number different from the request's.
func genSeq(t *rapid.T) uint32 {
	return rapid.OneOf(
		rapid.Uint32Range(0, 0xffffff),
		rapid.SampledFrom([]uint32{0, 1, 2, 0xfffffe, 0xffffff, 0x800000, 0x7fffff}),
	).Draw(t, "seq")
}

func genSEID(t *rapid.T) uint64 {
	return rapid.OneOf(
		rapid.Uint64(),
		rapid.SampledFrom([]uint64{0, 1, 2, 1<<63 - 1, 1 << 63, 1<<64 - 1, 0xffffffff, 1 << 32}),
	).Draw(t, "cpseid")
}

// ruleKnobs steers the shape of generated sessions.
type ruleKnobs struct {
	maxPairs   int  // number of uplink/downlink PDR pairs
	choose     bool // allow CHOOSE F-TEIDs
	ueAlloc    bool // allow UP-allocated UE addresses
	sdf        bool // allow SDF filters
	qers       bool // allow QERs
	buffer     bool // allow buffering / dropping downlink FARs
	sessQER    bool // allow a session-level QER referenced by every PDR
	ranges     bool // allow port ranges in SDFs
	gbr        bool
	precSpread bool // wide precedence values
	prec32     bool // precedence over the whole 32-bit domain of the IE (BESS)
	accessN3   string
	appIDs     []string
}

var sdfRemotes = []string{"any", "8.8.8.8", "8.8.8.0/24", "172.16.0.0/12", "192.0.2.1/32", "0.0.0.0/0", "10.1.2.3/31"}
var sdfProtos = []string{"ip", "udp", "tcp", "17", "6", "1", "132"}

// genSDF draws an in-envelope flow description: remote endpoint first, UE side "assigned",
// at most one port specification.
func genSDF(t *rapid.T, ranges bool) string {
	proto := rapid.SampledFrom(sdfProtos).Draw(t, "proto")
	remote := rapid.SampledFrom(sdfRemotes).Draw(t, "remote")
	port := ""
	if proto != "ip" && proto != "1" {
		switch rapid.IntRange(0, 3).Draw(t, "portkind") {
		case 1:
			port = fmt.Sprintf(" %d", rapid.IntRange(1, 65535).Draw(t, "port"))
		case 2:
			if ranges {
				lo := rapid.IntRange(1, 65000).Draw(t, "lo")
				w := rapid.IntRange(1, 99).Draw(t, "w")
				port = fmt.Sprintf(" %d-%d", lo, lo+w)
			}
		}
	}
	dir := rapid.SampledFrom([]string{"out", "in"}).Draw(t, "dir")
	// remote port on the remote endpoint (the documented single port specification)
	return fmt.Sprintf("permit %s %s from %s%s to assigned", dir, proto, remote, port)
}

// sdfKey canonicalises a flow description by what it denotes, so that two texts with the
// same meaning (e.g. no filter and "ip from any to assigned") count as the same match key.
func sdfKey(sdf string) string {
	if sdf == "" {
		return "any"
	}
	f, err := model.ParseFlow(sdf)
	if err != nil {
		return sdf
	}
	pf, _ := f.Orient("core", 1)
	if pf.SrcLen == 0 && pf.SrcLo == 0 && pf.SrcHi == 65535 && pf.ProtoAny {
		return "any"
	}
	return fmt.Sprintf("%d/%d:%d-%d:%v:%d", pf.SrcNet&model.MaskOf(pf.SrcLen), pf.SrcLen, pf.SrcLo, pf.SrcHi, pf.ProtoAny, pf.Proto)
}

// sdfCollide tells whether two flow descriptions of one session and direction would need a datapath
// entry under one and the same (value, mask) key: equal denotation, or equal prefix and protocol with
// overlapping true port ranges (each port of a range becomes an exact-port entry). A match table keyed
// by (value, mask) cannot hold both, so such pairs are outside the supported envelope (DESIGN.md 5.1).
func sdfCollide(a, b string) bool {
	if sdfKey(a) == sdfKey(b) {
		return true
	}
	if a == "" || b == "" {
		return false
	}
	fa, ea := model.ParseFlow(a)
	fb, eb := model.ParseFlow(b)
	if ea != nil || eb != nil {
		return false
	}
	pa, _ := fa.Orient("core", 1)
	pb, _ := fb.Orient("core", 1)
	if pa.SrcLen != pb.SrcLen || pa.SrcNet&model.MaskOf(pa.SrcLen) != pb.SrcNet&model.MaskOf(pb.SrcLen) || pa.ProtoAny != pb.ProtoAny || (!pa.ProtoAny && pa.Proto != pb.Proto) {
		return false
	}
	wild := func(lo, hi uint16) bool { return lo == 0 && hi == 65535 }
	if wild(pa.SrcLo, pa.SrcHi) || wild(pb.SrcLo, pb.SrcHi) {
		return false
	}
	return pa.SrcLo <= pb.SrcHi && pb.SrcLo <= pa.SrcHi
}

// sessCtx carries the per-session constants a generator needs to keep keys distinct.
type sessCtx struct {
	idx    int
	peer   int
	ue     string
	gnb    string
	teidUL uint32
}

func mkSessCtx(t *rapid.T, idx, peer int) sessCtx {
	return sessCtx{
		idx:  idx,
		peer: peer,
		ue:   fmt.Sprintf("10.%d.%d.%d", 60+peer, idx%250, rapid.IntRange(1, 250).Draw(t, "uehost")),
		gnb:  fmt.Sprintf("198.18.%d.%d", 1+rapid.IntRange(0, 2).Draw(t, "gnbnet"), rapid.IntRange(2, 6).Draw(t, "gnbhost")),
		// distinct per session by construction: high bits carry the session index
		teidUL: uint32(idx+1)<<16 | uint32(rapid.IntRange(1, 0xffff).Draw(t, "teid")),
	}
}

// genRules draws the rules of one session inside the supported IPv4 envelope.
// wireOrder draws the order in which the member IEs of the grouped IEs go onto the wire: the
// canonical order of every encoder half of the time, else a permutation per rule (IE order inside a
// grouped IE carries no meaning in PFCP).
func wireOrder(t *rapid.T, pdrs []model.PDR, fars []model.FAR, qers []model.QER) {
	w := rapid.OneOf(rapid.Just(uint32(0)), rapid.Uint32Range(1, 1<<30)).Draw(t, "wireorder")
	if w == 0 {
		return
	}
	for i := range pdrs {
		pdrs[i].Perm = w + uint32(i)*7919
	}
	for i := range fars {
		fars[i].Perm = w + uint32(i)*104729
	}
	for i := range qers {
		qers[i].Perm = w + uint32(i)*1299709
	}
}

// genPrec32 draws a precedence from the whole domain of the 32-bit IE: mostly small values, as deployed, and
// the neighbourhoods of the 16-, 31- and 32-bit boundaries.
func genPrec32(t *rapid.T) uint32 {
	return rapid.OneOf(rapid.Uint32Range(1, 255), rapid.Uint32Range(1, 255), rapid.Uint32(),
		rapid.SampledFrom([]uint32{0, 1, 65534, 65535, 65536, 65537, 70000, 1<<31 - 1, 1 << 31, 1<<32 - 2, 1<<32 - 1})).Draw(t, "prec32")
}

func genRules(t *rapid.T, k ruleKnobs, c sessCtx) (pdrs []model.PDR, fars []model.FAR, qers []model.QER) {
	defer func() { wireOrder(t, pdrs, fars, qers) }()
	nPairs := rapid.IntRange(1, max(1, k.maxPairs)).Draw(t, "pairs")
	n3 := k.accessN3
	// QERs
	var appQ []uint32
	var sessQ uint32
	if k.qers {
		nq := rapid.IntRange(0, 2).Draw(t, "nAppQ")
		for i := 0; i < nq; i++ {
			q := genQER(t, uint32(1+i), k.gbr)
			qers = append(qers, q)
			appQ = append(appQ, q.ID)
		}
		if k.sessQER && rapid.Bool().Draw(t, "sessQ") {
			q := genQER(t, 10, false)
			q.GBRUL, q.GBRDL = 0, 0
			qers = append(qers, q)
			sessQ = q.ID
		}
	}
	chooseUL := k.choose && rapid.Bool().Draw(t, "choose")
	allocUE := k.ueAlloc && rapid.Bool().Draw(t, "alloc")
	var usedSDF []string
	collides := func(sdf string) bool {
		for _, u := range usedSDF {
			if sdfCollide(u, sdf) {
				return true
			}
		}
		return false
	}
	for i := 0; i < nPairs; i++ {
		sdf := ""
		if k.sdf && (i > 0 || rapid.Bool().Draw(t, "sdf0")) {
			sdf = genSDF(t, k.ranges)
			if collides(sdf) {
				sdf = ""
			}
		}
		if collides(sdf) {
			// keep match keys pairwise distinct inside the session
			continue
		}
		usedSDF = append(usedSDF, sdf)
		prec := uint32(rapid.IntRange(1, 255).Draw(t, "prec"))
		if k.precSpread {
			prec = rapid.OneOf(rapid.Uint32Range(0, 65535), rapid.SampledFrom([]uint32{0, 1, 65534, 65535})).Draw(t, "precw")
		}
		if k.prec32 {
			prec = genPrec32(t)
		}
		var ql []uint32
		if len(appQ) > 0 {
			ql = append(ql, appQ[rapid.IntRange(0, len(appQ)-1).Draw(t, "qpick")])
			if len(appQ) > 1 && rapid.IntRange(0, 3).Draw(t, "q2nd") == 0 {
				// a second application QER behind the first one: the first one stays the rule's application QER
				for _, id := range appQ {
					if id != ql[0] {
						ql = append(ql, id)
						break
					}
				}
			}
		}
		if sessQ != 0 {
			ql = append(ql, sessQ)
		}
		ulFar := uint32(1 + 2*i)
		dlFar := uint32(2 + 2*i)
		up := model.PDR{ID: uint16(1 + 2*i), Prec: prec, Src: "access", FTEID: true, OHR: true, FAR: ulFar, QERs: ql, SDF: sdf}
		if chooseUL {
			up.Choose = true
		} else {
			up.TEID = c.teidUL
			up.N3 = n3
		}
		if !allocUE && rapid.Bool().Draw(t, "ulue") {
			up.HasUE, up.UEIP = true, c.ue
		}
		dn := model.PDR{ID: uint16(2 + 2*i), Prec: prec, Src: "core", HasUE: true, FAR: dlFar, QERs: ql, SDF: sdf}
		if allocUE {
			dn.UEAlloc = true
		} else {
			dn.UEIP = c.ue
		}
		pdrs = append(pdrs, up, dn)
		fars = append(fars,
			model.FAR{ID: ulFar, Action: model.ActFORW, HasFwd: true, DstIf: model.IfCore},
			genDLFAR(t, k, c, dlFar))
	}
	return
}

func genDLFAR(t *rapid.T, k ruleKnobs, c sessCtx, id uint32) model.FAR {
	kind := 0
	if k.buffer {
		kind = rapid.IntRange(0, 3).Draw(t, "farkind")
	}
	switch kind {
	case 1:
		return model.FAR{ID: id, Action: model.ActBUFF | model.ActNOCP}
	case 2:
		return model.FAR{ID: id, Action: model.ActDROP}
	case 3:
		return model.FAR{ID: id, Action: model.ActBUFF}
	}
	return model.FAR{ID: id, Action: model.ActFORW, HasFwd: true, DstIf: model.IfAccess, HasOHC: true,
		TEID: uint32(rapid.IntRange(1, 1<<31).Draw(t, "dlteid")), Peer: c.gnb}
}

func genQER(t *rapid.T, id uint32, gbr bool) model.QER {
	rate := rapid.OneOf(
		rapid.Uint64Range(0, 1<<40-1),
		rapid.SampledFrom([]uint64{0, 1, 7, 8, 1000, 1 << 20, 1<<40 - 1}),
	)
	q := model.QER{ID: id, QFI: uint8(rapid.IntRange(0, 63).Draw(t, "qfi")),
		GateUL: uint8(rapid.IntRange(0, 1).Draw(t, "gul")), GateDL: uint8(rapid.IntRange(0, 1).Draw(t, "gdl")),
		MBRUL: rate.Draw(t, "mul"), MBRDL: rate.Draw(t, "mdl")}
	if gbr && rapid.Bool().Draw(t, "hasgbr") {
		q.GBRUL = rapid.Uint64Range(0, q.MBRUL).Draw(t, "gbul")
		q.GBRDL = rapid.Uint64Range(0, q.MBRDL).Draw(t, "gbdl")
	}
	return q
}
