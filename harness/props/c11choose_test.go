//go:build verif

package props

import (
	"fmt"
	"sync"
	"testing"
	"time"

	"github.com/wmnsk/go-pfcp/ie"
	"github.com/wmnsk/go-pfcp/message"
	"pgregory.net/rapid"

	"verif/harness/model"
	"verif/harness/sim"
)

// ---- C11: the pool of UP-chosen TEIDs under establishments that arrive on several associations at once ----

type c11Choose struct {
	Peers  int `json:"peers"`
	Est    int `json:"est"`    // establishments per peer, sent back to back without waiting for the answers
	Choose int `json:"choose"` // CHOOSE F-TEIDs per establishment
}

func runC11Choose(c c11Choose, ev *Ev) error {
	r, err := newRig(RigOpts{})
	if err != nil {
		return fmt.Errorf("INFRA: %v", err)
	}
	runs := make([]*sim.Runner, c.Peers)
	for i := range runs {
		run, err := r.newRunner(1)
		if err != nil {
			return fmt.Errorf("INFRA: %v", err)
		}
		defer run.Close()
		runs[i] = run
		if o := run.Exec(opAssoc(0, 1)); !o.Accepted {
			return fmt.Errorf("INFRA: association %d not accepted", i)
		}
	}
	chosen := make([][]uint32, c.Peers)
	errs := make([]error, c.Peers)
	start := make(chan struct{})
	var wg sync.WaitGroup
	for i := range runs {
		wg.Add(1)
		go func(i int) {
			defer wg.Done()
			p := runs[i].Peers[0]
			var reqs [][]byte
			for k := 0; k < c.Est; k++ {
				op := model.Op{Kind: "est", Seq: uint32(100 + k), CPSEID: uint64(i*1000 + k + 1)}
				op.FARs = []model.FAR{{ID: 1, Action: model.ActFORW, HasFwd: true, DstIf: model.IfCore}, {ID: 2, Action: model.ActDROP}}
				op.PDRs = []model.PDR{{ID: 1, Prec: 5, Src: "core", HasUE: true, UEIP: fmt.Sprintf("10.71.%d.%d", i, k+1), FAR: 2}}
				for j := 0; j < c.Choose; j++ {
					op.PDRs = append(op.PDRs, model.PDR{ID: uint16(10 + j), Prec: uint32(10 + j), Src: "access", FTEID: true, Choose: true, OHR: true, FAR: 1,
						SDF: fmt.Sprintf("permit out udp from 8.8.%d.0/24 to assigned", j)})
				}
				reqs = append(reqs, model.Marshal(model.Establishment(op.Seq, p.NodeID, op.CPSEID, p.IP, op)))
			}
			<-start
			for _, b := range reqs {
				if err := p.P.SendRaw(b); err != nil {
					errs[i] = fmt.Errorf("INFRA: send: %v", err)
					return
				}
			}
			answered := map[uint32]bool{}
			deadline := time.Now().Add(30 * time.Second)
			for len(answered) < c.Est && time.Now().Before(deadline) {
				d, err := p.P.RecvFresh(200 * time.Millisecond)
				if err != nil {
					continue
				}
				m, perr := message.Parse(d.B)
				if perr != nil {
					errs[i] = fmt.Errorf("peer %d: undecodable datagram from the agent: %x", i, d.B)
					return
				}
				er, ok := m.(*message.SessionEstablishmentResponse)
				if !ok {
					continue
				}
				if answered[er.Sequence()] {
					errs[i] = fmt.Errorf("peer %d: two responses for establishment seq %d", i, er.Sequence())
					return
				}
				answered[er.Sequence()] = true
				if er.Cause == nil {
					errs[i] = fmt.Errorf("peer %d: establishment response without cause", i)
					return
				}
				if cv, _ := er.Cause.Cause(); cv != ie.CauseRequestAccepted {
					errs[i] = fmt.Errorf("peer %d: establishment seq %d rejected with cause %d while other associations were busy", i, er.Sequence(), cv)
					return
				}
				n := 0
				for _, cp := range er.CreatedPDR {
					if ft, err := cp.FTEID(); err == nil {
						chosen[i] = append(chosen[i], ft.TEID)
						n++
					}
				}
				if n != c.Choose {
					errs[i] = fmt.Errorf("peer %d: establishment seq %d reports %d chosen F-TEIDs, want %d", i, er.Sequence(), n, c.Choose)
					return
				}
			}
			if len(answered) < c.Est {
				errs[i] = fmt.Errorf("peer %d: only %d of %d establishments were answered within 30 s", i, len(answered), c.Est)
			}
		}(i)
	}
	close(start)
	wg.Wait()
	for _, e := range errs {
		if e != nil {
			return e
		}
	}
	owner := map[uint32]int{}
	for i, tl := range chosen {
		for _, tv := range tl {
			if tv == 0 {
				return fmt.Errorf("peer %d was given the chosen TEID 0", i)
			}
			if o, dup := owner[tv]; dup {
				return fmt.Errorf("TEID %d was chosen twice: for a session of peer %d and for one of peer %d, both live", tv, o, i)
			}
			owner[tv] = i
		}
	}
	if _, n := r.A.Iface.VerifTEIDAllocated(0); n != len(owner) {
		return fmt.Errorf("the agent counts %d allocated TEIDs, the live sessions were given %d", n, len(owner))
	}
	// every association is released: the pool is empty again
	for i, run := range runs {
		run.Peers[0].Assoc = true
		if o := run.Exec(opRelease(0, 0x7000)); !o.Accepted {
			return fmt.Errorf("peer %d: Association Release not accepted", i)
		}
	}
	r.B.WaitQuiet(5 * time.Second)
	if _, n := r.A.Iface.VerifTEIDAllocated(0); n != 0 {
		return fmt.Errorf("after every association was released %d chosen TEIDs are still allocated", n)
	}
	ev.Label(fmt.Sprintf("peers=%d", c.Peers))
	ev.Case(c, c.Peers >= 3 && c.Est*c.Choose >= 20, c.Peers*c.Est*c.Choose)
	return nil
}

func TestC11Choose(t *testing.T) {
	ev := newEv("C11")
	ev.Rule = "fresh agent on BESS under the race detector; 2-8 associations each send 5-40 Session Establishment Requests with 1-4 CHOOSE F-TEIDs back to back (no waiting for answers) at the same instant; every request is accepted, the chosen TEIDs are pairwise distinct and non-zero over all associations, the agent's allocation count (hook) equals their number and returns to zero after every association is released; non-trivial = >= 3 associations and >= 20 allocations each; distinct by case"
	ev.Assume = []string{"schedules are sampled, not enumerated"}
	runProp(t, ev, "choose", true, func(t *rapid.T) c11Choose {
		return c11Choose{Peers: rapid.IntRange(2, 8).Draw(t, "peers"), Est: rapid.IntRange(5, scale(40, 40)).Draw(t, "est"), Choose: rapid.IntRange(1, 4).Draw(t, "choose")}
	}, runC11Choose)
}

func init() {
	registerFns = append(registerFns, func() { registerReplay("C11", "choose", runC11Choose) })
}
