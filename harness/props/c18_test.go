package props

import (
	"encoding/json"
	"fmt"
	"net"
	"os"
	"path/filepath"
	"reflect"
	"strings"
	"testing"
	"time"

	"github.com/omec-project/upf-epc/pfcpiface"
	"go.uber.org/zap/zapcore"
	"pgregory.net/rapid"
)

// ---------- C18: configuration loading yields a validated configuration or an error ----------

type kv struct {
	K string
	V any // string | float64-like json.Number | bool | []any | []kv | rawTok
}
type rawTok string

type c18Case struct {
	Doc       string `json:"doc"`
	Commented string `json:"commented,omitempty"`
	Kind      string `json:"kind"`              // valid | invalid | adversarial
	Invalid   string `json:"invalid,omitempty"` // which field was made invalid
	Expect    string `json:"expect,omitempty"`  // JSON of the expected Conf for valid documents
	Absent    int    `json:"absent,omitempty"`
	Comments  int    `json:"comments,omitempty"`
}

func tokens(v any, out *[]string) {
	switch x := v.(type) {
	case []kv:
		*out = append(*out, "{")
		for i, e := range x {
			if i > 0 {
				*out = append(*out, ",")
			}
			kb, _ := json.Marshal(e.K)
			*out = append(*out, string(kb), ":")
			tokens(e.V, out)
		}
		*out = append(*out, "}")
	case []any:
		*out = append(*out, "[")
		for i, e := range x {
			if i > 0 {
				*out = append(*out, ",")
			}
			tokens(e, out)
		}
		*out = append(*out, "]")
	case rawTok:
		*out = append(*out, string(x))
	default:
		b, _ := json.Marshal(x)
		*out = append(*out, string(b))
	}
}

var commentTexts = []string{"", " x", " \"mode\": \"sim\",", " { } [ ] , :", " a /* b", " http://example.org/x", " 'quoted' \"dq\"", " \\", " */", " //", " // again", "*", " trailing \\n literal", " ünïcödé", "\t tab"}

func genComment(t *rapid.T) string {
	txt := rapid.SampledFrom(commentTexts).Draw(t, "ctext")
	if rapid.Bool().Draw(t, "line") {
		return "//" + txt + "\n"
	}
	// single-line block comment: text must not contain the terminator
	txt = strings.ReplaceAll(txt, "*/", "* /")
	return "/*" + txt + "*/"
}

func render(t *rapid.T, toks []string, comments bool) (string, int) {
	var sb strings.Builder
	n := 0
	ws := []string{" ", "\n", "", "\t", "\n    ", "  "}
	emitGap := func() {
		sb.WriteString(rapid.SampledFrom(ws).Draw(t, "ws"))
		if comments && rapid.IntRange(0, 3).Draw(t, "c?") == 0 {
			k := rapid.IntRange(1, 2).Draw(t, "nc")
			for i := 0; i < k; i++ {
				sb.WriteString(genComment(t))
				n++
				sb.WriteString(rapid.SampledFrom(ws).Draw(t, "ws2"))
			}
		}
	}
	for _, tok := range toks {
		emitGap()
		sb.WriteString(tok)
	}
	emitGap()
	return sb.String(), n
}

var validDurations = []string{"2s", "500ms", "1m", "1h", "100us", "1.5s", "0s", "3m30s"}
var invalidDurations = []string{"2", "abc", "2 s", "1d", "s", "-", "5sec"}
var validCIDRs = []string{"10.250.0.0/16", "198.18.0.1/32", "192.168.0.0/24", "10.0.0.5/30", "fd00::/64", "0.0.0.0/0"}
var invalidCIDRs = []string{"10.250.0.0", "10.250.0.0/33", "x", "", "1.2.3/24", "10.0.0.0/-1"}
var validIPs = []string{"10.0.0.1", "192.168.1.254", "::1", "2001:db8::1", "127.0.0.1"}
var invalidIPs = []string{"smf.example.org", "1.2.3", "300.1.1.1", "", "1.2.3.4/24"}
var validModes = []string{"af_xdp", "af_packet", "cndp", "dpdk", "sim"}

// genC18 draws a configuration model, renders it, and says what loading must yield.
func genC18(t *rapid.T) c18Case {
	if rapid.IntRange(0, 9).Draw(t, "adv") == 0 {
		return genC18Adversarial(t)
	}
	var doc []kv
	exp := pfcpiface.Conf{LogLevel: zapcore.InfoLevel}
	exp.P4rtcIface.DefaultTC = 3
	absent := 0
	invalidField := ""
	// one field may be made invalid
	breakIt := rapid.IntRange(0, 3).Draw(t, "break") == 0
	breakable := []string{"mode", "resp_timeout", "read_timeout", "max_req_retries", "heart_beat_interval", "peers", "ue_ip_pool", "access_ip", "log_level", "slice_id", "modeP4"}
	target := ""
	if breakIt {
		target = rapid.SampledFrom(breakable).Draw(t, "target")
	}
	opt := func(name string) bool { // present?
		p := rapid.IntRange(0, 2).Draw(t, "has_"+name) != 0
		if !p {
			absent++
		}
		return p
	}
	p4 := rapid.Bool().Draw(t, "p4")
	if target == "access_ip" || target == "modeP4" || target == "slice_id" {
		p4 = true
	}
	if target == "mode" {
		p4 = false
	}
	// mode
	if p4 {
		exp.EnableP4rt = true
		doc = append(doc, kv{"enable_p4rt", true})
		if target == "modeP4" {
			m := rapid.SampledFrom(validModes).Draw(t, "modep4")
			doc = append(doc, kv{"mode", m})
			invalidField = "mode set for P4"
		} else if rapid.Bool().Draw(t, "emptymode") {
			doc = append(doc, kv{"mode", ""})
		}
	} else {
		if target == "mode" {
			bad := rapid.SampledFrom([]string{"foo", "DPDK", "", "dpdk ", "absent"}).Draw(t, "badmode")
			if bad != "absent" {
				doc = append(doc, kv{"mode", bad})
			}
			invalidField = "mode"
		} else {
			m := rapid.SampledFrom(validModes).Draw(t, "mode")
			exp.Mode = m
			doc = append(doc, kv{"mode", m})
		}
		if rapid.Bool().Draw(t, "p4false") {
			doc = append(doc, kv{"enable_p4rt", false})
		}
	}
	// unknown keys are ignored
	if rapid.Bool().Draw(t, "unknown") {
		doc = append(doc, kv{"table_sizes", []kv{{"pdrLookup", rawTok("50000")}, {"farLookup", rawTok("150000")}}}, kv{"hwcksum", false})
	}
	// interfaces
	if opt("ifaces") {
		exp.AccessIface.IfName, exp.CoreIface.IfName = "ens803f2", "ens803f3"
		doc = append(doc, kv{"access", []kv{{"ifname", "ens803f2"}}}, kv{"core", []kv{{"ifname", "ens803f3"}}})
	}
	// p4rtciface
	if p4 || rapid.Bool().Draw(t, "p4block") {
		var blk []kv
		if p4 {
			if target == "access_ip" {
				bad := rapid.SampledFrom(invalidCIDRs).Draw(t, "badaccess")
				blk = append(blk, kv{"access_ip", bad})
				invalidField = "access_ip"
			} else {
				c := rapid.SampledFrom(validCIDRs).Draw(t, "access")
				exp.P4rtcIface.AccessIP = c
				blk = append(blk, kv{"access_ip", c})
			}
		}
		if opt("p4server") {
			exp.P4rtcIface.P4rtcServer, exp.P4rtcIface.P4rtcPort = "onos", "51001"
			blk = append(blk, kv{"p4rtc_server", "onos"}, kv{"p4rtc_port", "51001"})
		}
		if target == "slice_id" {
			blk = append(blk, kv{"slice_id", rawTok(rapid.SampledFrom([]string{"256", "-1", "\"3\"", "1.5"}).Draw(t, "badslice"))})
			invalidField = "slice_id"
		} else if opt("slice") {
			s := rapid.IntRange(0, 15).Draw(t, "slice")
			exp.P4rtcIface.SliceID = uint8(s)
			blk = append(blk, kv{"slice_id", rawTok(fmt.Sprint(s))})
		}
		if opt("tc") {
			tc := rapid.IntRange(0, 3).Draw(t, "tc")
			exp.P4rtcIface.DefaultTC = uint8(tc)
			blk = append(blk, kv{"default_tc", rawTok(fmt.Sprint(tc))})
		}
		if opt("qfitc") {
			exp.P4rtcIface.QFIToTC = map[uint8]uint8{}
			var m []kv
			for _, q := range []int{1, 5, 9} {
				if rapid.Bool().Draw(t, "q") {
					tc := rapid.IntRange(0, 3).Draw(t, "qtc")
					exp.P4rtcIface.QFIToTC[uint8(q)] = uint8(tc)
					m = append(m, kv{fmt.Sprint(q), rawTok(fmt.Sprint(tc))})
				}
			}
			blk = append(blk, kv{"qfi_tc_mapping", m})
		}
		if rapid.Bool().Draw(t, "clear") {
			exp.P4rtcIface.ClearStateOnRestart = true
			blk = append(blk, kv{"clear_state_on_restart", true})
		}
		doc = append(doc, kv{"p4rtciface", blk})
	}
	// cpiface
	{
		var blk []kv
		alloc := rapid.Bool().Draw(t, "alloc")
		if target == "ue_ip_pool" && !p4 {
			alloc = true // on BESS the pool is only consumed when the UP allocates addresses; UP4 always needs it
		}
		if alloc {
			exp.CPIface.EnableUeIPAlloc = true
			blk = append(blk, kv{"enable_ue_ip_alloc", true})
		}
		needPool := alloc || p4
		if target == "ue_ip_pool" {
			bad := rapid.SampledFrom(append([]string{"absent"}, invalidCIDRs...)).Draw(t, "badpool")
			if bad != "absent" {
				blk = append(blk, kv{"ue_ip_pool", bad})
			}
			invalidField = "ue_ip_pool"
		} else if needPool || rapid.Bool().Draw(t, "pool") {
			c := rapid.SampledFrom(validCIDRs).Draw(t, "pool")
			exp.CPIface.UEIPPool = c
			blk = append(blk, kv{"ue_ip_pool", c})
		}
		if target == "peers" {
			bad := rapid.SampledFrom(invalidIPs).Draw(t, "badpeer")
			blk = append(blk, kv{"peers", []any{"10.0.0.9", bad}})
			invalidField = "peers"
		} else if opt("peers") {
			n := rapid.IntRange(0, 3).Draw(t, "npeers")
			exp.CPIface.Peers = []string{}
			var l []any
			for i := 0; i < n; i++ {
				ip := rapid.SampledFrom(validIPs).Draw(t, "peer")
				exp.CPIface.Peers = append(exp.CPIface.Peers, ip)
				l = append(l, ip)
			}
			if l == nil {
				l = []any{}
			}
			blk = append(blk, kv{"peers", l})
		}
		if opt("dnn") {
			// free-form string: values that need escaping in JSON (quotes, backslashes, control and non-ASCII
			// characters) but contain no comment marker - comments elsewhere must still be ignored
			dnn := rapid.SampledFrom([]string{"internet", "internet", "internet", "inter\"net", "a\\b", "x\"y\"z\"", "q\\\"", "ünï.cödé", "a<b>&c", "tab\there\nnl"}).Draw(t, "dnn")
			exp.CPIface.Dnn = dnn
			blk = append(blk, kv{"dnn", dnn})
		}
		if opt("http") {
			exp.CPIface.HTTPPort = "8080"
			blk = append(blk, kv{"http_port", "8080"})
		}
		if rapid.Bool().Draw(t, "fqdn") {
			exp.CPIface.UseFQDN = true
			exp.CPIface.NodeID = "upf.example.org"
			blk = append(blk, kv{"use_fqdn", true}, kv{"hostname", "upf.example.org"})
		}
		doc = append(doc, kv{"cpiface", blk})
	}
	// timers
	if target == "resp_timeout" {
		doc = append(doc, kv{"resp_timeout", rapid.SampledFrom(invalidDurations).Draw(t, "badresp")})
		invalidField = "resp_timeout"
	} else if opt("resp") {
		d := rapid.SampledFrom(validDurations).Draw(t, "resp")
		exp.RespTimeout = d
		doc = append(doc, kv{"resp_timeout", d})
	} else {
		exp.RespTimeout = "2s"
	}
	if target == "read_timeout" {
		doc = append(doc, kv{"read_timeout", rawTok(rapid.SampledFrom([]string{"-1", "4294967296", "\"15\"", "1.5", "true"}).Draw(t, "badread"))})
		invalidField = "read_timeout"
	} else if opt("read") {
		v := rapid.SampledFrom([]uint32{0, 1, 15, 3600, 4294967295}).Draw(t, "read")
		exp.ReadTimeout = v
		if v == 0 {
			exp.ReadTimeout = 15
		}
		doc = append(doc, kv{"read_timeout", rawTok(fmt.Sprint(v))})
	} else {
		exp.ReadTimeout = 15
	}
	if target == "max_req_retries" {
		doc = append(doc, kv{"max_req_retries", rawTok(rapid.SampledFrom([]string{"256", "-1", "\"5\"", "1e3"}).Draw(t, "badretries"))})
		invalidField = "max_req_retries"
	} else if opt("retries") {
		v := rapid.SampledFrom([]uint8{0, 1, 5, 7, 255}).Draw(t, "retries")
		exp.MaxReqRetries = v
		if v == 0 {
			exp.MaxReqRetries = 5
		}
		doc = append(doc, kv{"max_req_retries", rawTok(fmt.Sprint(v))})
	} else {
		exp.MaxReqRetries = 5
	}
	hb := rapid.Bool().Draw(t, "hb")
	if target == "heart_beat_interval" {
		hb = true
	}
	if hb {
		exp.EnableHBTimer = true
		doc = append(doc, kv{"enable_hbTimer", true})
	}
	if target == "heart_beat_interval" {
		doc = append(doc, kv{"heart_beat_interval", rapid.SampledFrom(invalidDurations).Draw(t, "badhb")})
		invalidField = "heart_beat_interval"
	} else if opt("hbi") {
		d := rapid.SampledFrom(validDurations).Draw(t, "hbi")
		exp.HeartBeatInterval = d
		doc = append(doc, kv{"heart_beat_interval", d})
	} else if hb {
		exp.HeartBeatInterval = "5s"
	}
	if target == "log_level" {
		doc = append(doc, kv{"log_level", rapid.SampledFrom([]string{"verbose", "trace", "7"}).Draw(t, "badlvl")})
		invalidField = "log_level"
	} else if opt("log") {
		l := rapid.SampledFrom([]string{"debug", "info", "warn", "error", "panic", "fatal"}).Draw(t, "lvl")
		_ = exp.LogLevel.UnmarshalText([]byte(l))
		doc = append(doc, kv{"log_level", l})
	}
	// feature flags and misc
	if rapid.Bool().Draw(t, "notify") {
		exp.EnableNotifyBess, exp.NotifySockAddr = true, "/pod-share/notifycp"
		doc = append(doc, kv{"enable_notify_bess", true}, kv{"notify_sockaddr", "/pod-share/notifycp"})
	}
	if rapid.Bool().Draw(t, "endm") {
		exp.EnableEndMarker, exp.EndMarkerSockAddr = true, "/pod-share/pfcpport"
		doc = append(doc, kv{"enable_end_marker", true}, kv{"endmarker_sockaddr", "/pod-share/pfcpport"})
	}
	if rapid.Bool().Draw(t, "measure") {
		exp.EnableFlowMeasure = true
		doc = append(doc, kv{"measure_flow", true})
	}
	if rapid.Bool().Draw(t, "qci") {
		exp.QciQosConfig = []pfcpiface.QciQosConfig{{QCI: 0, CBS: 50000, PBS: 50000, EBS: 50000, BurstDurationMs: 10, SchedulingPriority: 7}, {QCI: 9, CBS: 2048, PBS: 2048, EBS: 2048, SchedulingPriority: 6}}
		doc = append(doc, kv{"qci_qos_config", []any{
			[]kv{{"qci", rawTok("0")}, {"cbs", rawTok("50000")}, {"ebs", rawTok("50000")}, {"pbs", rawTok("50000")}, {"burst_duration_ms", rawTok("10")}, {"priority", rawTok("7")}},
			[]kv{{"qci", rawTok("9")}, {"cbs", rawTok("2048")}, {"ebs", rawTok("2048")}, {"pbs", rawTok("2048")}, {"priority", rawTok("6")}},
		}})
	}
	if rapid.Bool().Draw(t, "slicecfg") {
		exp.SliceMeterConfig = pfcpiface.SliceMeterConfig{N6RateBps: 500000000, N6BurstBytes: 625000, N3RateBps: 500000000, N3BurstBytes: 625000}
		doc = append(doc, kv{"slice_rate_limit_config", []kv{{"n6_bps", rawTok("500000000")}, {"n6_burst_bytes", rawTok("625000")}, {"n3_bps", rawTok("500000000")}, {"n3_burst_bytes", rawTok("625000")}}})
	}
	if rapid.Bool().Draw(t, "n4") {
		exp.N4Addr = "10.10.10.10"
		doc = append(doc, kv{"n4_addr", "10.10.10.10"})
	}
	// shuffle top-level order a little
	if len(doc) > 2 && rapid.Bool().Draw(t, "rot") {
		k := rapid.IntRange(1, len(doc)-1).Draw(t, "rotk")
		doc = append(append([]kv{}, doc[k:]...), doc[:k]...)
	}
	var toks []string
	tokens(doc, &toks)
	plain, _ := render(t, toks, false)
	commented, nc := render(t, toks, true)
	c := c18Case{Doc: plain, Commented: commented, Absent: absent, Comments: nc}
	if invalidField != "" {
		c.Kind, c.Invalid = "invalid", invalidField
	} else {
		c.Kind = "valid"
		b, _ := json.Marshal(exp)
		c.Expect = string(b)
	}
	return c
}

func genC18Adversarial(t *rapid.T) c18Case {
	base := `{"mode":"dpdk","cpiface":{"peers":["10.0.0.1"],"dnn":"internet"},"resp_timeout":"3s","notify_sockaddr":"/tmp/notifycp"}`
	var doc string
	switch rapid.IntRange(0, 6).Draw(t, "advkind") {
	case 0: // comment markers inside strings
		doc = strings.Replace(base, "internet", rapid.SampledFrom([]string{"http://x", "a//b", "a/*b*/c", "/*", "*/", "//"}).Draw(t, "marker"), 1)
	case 1: // multi-line block comment
		doc = "{ /* first line\n second line */ \"mode\": \"sim\" }"
	case 2: // truncation
		k := rapid.IntRange(0, len(base)).Draw(t, "cut")
		doc = base[:k]
	case 3: // arbitrary bytes
		doc = string(rapid.SliceOfN(rapid.Byte(), 0, 80).Draw(t, "bytes"))
	case 4: // wrong JSON types
		doc = rapid.SampledFrom([]string{`[]`, `"x"`, `null`, `{"mode":5}`, `{"cpiface":[]}`, `{"mode":"sim","cpiface":{"peers":"10.0.0.1"}}`, `{"mode":"sim","p4rtciface":{"qfi_tc_mapping":{"x":1}}}`,
			`{"mode":"sim","p4rtciface":{"qfi_tc_mapping":{"300":1}}}`, `{"mode":"sim","sim":{"start_ue_ip":"nonsense"}}`, `{"mode":"sim","log_level":5}`, `{"mode":"sim","enable_hbTimer":true,"heart_beat_interval":""}`,
			`{"mode":"sim","resp_timeout":""}`, `{"mode":"sim","read_timeout":0,"max_req_retries":0}`, `{"enable_p4rt":true}`, `{"mode":"sim","mode":"foo"}`}).Draw(t, "types")
	case 5: // nested/unterminated comments
		doc = rapid.SampledFrom([]string{"{ /* a /* b */ \"mode\":\"sim\" }", "{ \"mode\":\"sim\" } // trailing", "// only a comment", "/* */", "{ \"mode\": /* c */ \"sim\" /* d */ }", "{\"mode\":\"sim\"} /* unterminated", "{\"mode\":\"sim\" /", "{\"mode\":\"si//m\"}"}).Draw(t, "cm")
	default: // random printable JSON-ish
		doc = rapid.StringMatching(`[{}\[\]:,"a-z0-9/* \n]{0,60}`).Draw(t, "jsonish")
	}
	return c18Case{Doc: doc, Kind: "adversarial"}
}

var c18File string

func loadDoc(doc string) (conf pfcpiface.Conf, err error, panicked any) {
	if c18File == "" {
		dir := os.TempDir()
		if st, e := os.Stat("/dev/shm"); e == nil && st.IsDir() {
			dir = "/dev/shm"
		}
		c18File = filepath.Join(dir, fmt.Sprintf("verif-c18-%d.jsonc", os.Getpid()))
	}
	if e := os.WriteFile(c18File, []byte(doc), 0o600); e != nil {
		return conf, fmt.Errorf("INFRA: %v", e), nil
	}
	defer func() {
		if r := recover(); r != nil {
			panicked = r
		}
	}()
	conf, err = pfcpiface.LoadConfigFile(c18File)
	return
}

var modeSet = map[string]bool{"af_xdp": true, "af_packet": true, "cndp": true, "dpdk": true, "sim": true}

// validConf is the validity predicate of the statement.
func validConf(c pfcpiface.Conf) error {
	if _, err := time.ParseDuration(c.RespTimeout); err != nil {
		return fmt.Errorf("resp_timeout %q does not parse", c.RespTimeout)
	}
	if c.MaxReqRetries == 0 {
		return fmt.Errorf("max_req_retries is 0 (default 5 not filled in)")
	}
	if c.ReadTimeout == 0 {
		return fmt.Errorf("read_timeout is 0 (default 15 not filled in)")
	}
	if c.EnableHBTimer {
		if _, err := time.ParseDuration(c.HeartBeatInterval); err != nil {
			return fmt.Errorf("heart_beat_interval %q does not parse although heartbeats are enabled", c.HeartBeatInterval)
		}
	}
	if c.EnableP4rt {
		if c.Mode != "" {
			return fmt.Errorf("mode %q set for P4", c.Mode)
		}
		if _, _, err := net.ParseCIDR(c.P4rtcIface.AccessIP); err != nil {
			return fmt.Errorf("access_ip %q does not parse", c.P4rtcIface.AccessIP)
		}
		if _, _, err := net.ParseCIDR(c.CPIface.UEIPPool); err != nil {
			return fmt.Errorf("ue_ip_pool %q does not parse (P4)", c.CPIface.UEIPPool)
		}
	} else if !modeSet[c.Mode] {
		return fmt.Errorf("mode %q is not a supported BESS mode", c.Mode)
	}
	if c.CPIface.EnableUeIPAlloc {
		if _, _, err := net.ParseCIDR(c.CPIface.UEIPPool); err != nil {
			return fmt.Errorf("ue_ip_pool %q does not parse although UE IP allocation is enabled", c.CPIface.UEIPPool)
		}
	}
	for _, p := range c.CPIface.Peers {
		if net.ParseIP(p) == nil {
			return fmt.Errorf("peer %q is not an IP address", p)
		}
	}
	return nil
}

func normConf(c pfcpiface.Conf) pfcpiface.Conf {
	if len(c.CPIface.Peers) == 0 {
		c.CPIface.Peers = nil
	}
	if len(c.P4rtcIface.QFIToTC) == 0 {
		c.P4rtcIface.QFIToTC = nil
	}
	if len(c.QciQosConfig) == 0 {
		c.QciQosConfig = nil
	}
	return c
}

func runC18(c c18Case, ev *Ev) error {
	conf, err, pan := loadDoc(c.Doc)
	if pan != nil {
		return fmt.Errorf("LoadConfigFile panicked: %v", pan)
	}
	if err != nil && strings.HasPrefix(err.Error(), "INFRA:") {
		return err
	}
	if err == nil {
		if verr := validConf(conf); verr != nil {
			return fmt.Errorf("loader returned a configuration that is not valid: %v (document %q)", verr, c.Doc)
		}
	}
	nontriv := false
	switch c.Kind {
	case "valid":
		if err != nil {
			return fmt.Errorf("valid document rejected: %v\n%s", err, c.Doc)
		}
		var exp pfcpiface.Conf
		if e := json.Unmarshal([]byte(c.Expect), &exp); e != nil {
			return fmt.Errorf("INFRA: expected conf: %v", e)
		}
		if !reflect.DeepEqual(normConf(conf), normConf(exp)) {
			return fmt.Errorf("round trip: loaded %+v\nwant %+v\ndocument %s", normConf(conf), normConf(exp), c.Doc)
		}
	case "invalid":
		if err == nil {
			return fmt.Errorf("document with invalid %s was loaded: %s", c.Invalid, c.Doc)
		}
		nontriv = true
	}
	if c.Commented != "" {
		conf2, err2, pan2 := loadDoc(c.Commented)
		if pan2 != nil {
			return fmt.Errorf("LoadConfigFile panicked on the commented document: %v", pan2)
		}
		if (err == nil) != (err2 == nil) {
			return fmt.Errorf("comments between tokens changed the outcome: plain err=%v, commented err=%v\n--- commented document:\n%s", err, err2, c.Commented)
		}
		if err == nil && !reflect.DeepEqual(conf, conf2) {
			return fmt.Errorf("comments between tokens changed the configuration:\nplain     %+v\ncommented %+v\n--- commented document:\n%s", conf, conf2, c.Commented)
		}
		if c.Kind == "valid" && c.Absent >= 3 && c.Comments >= 2 {
			nontriv = true
		}
	}
	ev.Label(c.Kind)
	if err == nil {
		ev.Label("loaded")
	} else {
		ev.Label("rejected")
	}
	ev.Case(c, nontriv, len(c.Doc))
	return nil
}

func TestC18(t *testing.T) {
	ev := newEv("C18")
	ev.Rule = "schema-driven generator of configuration models (valid / one invalid field / absent fields) rendered to JSON and re-rendered with // and single-line /* */ comments between tokens, plus an adversarial layer (markers inside strings, multi-line blocks, truncation, arbitrary bytes, wrong types); non-trivial = loads with >=3 absent defaulted fields and >=2 comments, or is rejected for exactly one invalid field; distinct by document text"
	defer func() {
		if c18File != "" {
			os.Remove(c18File)
		}
	}()
	runProp(t, ev, "doc", false, genC18, runC18)
}

// TestC18Samples: every sample configuration shipped in the repository loads.
func TestC18Samples(t *testing.T) {
	ev := newEv("C18")
	defer ev.write()
	repo := envOr("VERIF_REPO", "/repo")
	var files []string
	// agent configuration samples are the files named upf.jsonc (conf/cndp_upf_*.jsonc are
	// configuration files of the CNDP library, not of the agent)
	for _, pat := range []string{"conf/upf.jsonc", "ptf/config/upf.jsonc", "*/upf.jsonc", "*/*/upf.jsonc", "*/*/*/upf.jsonc"} {
		m, _ := filepath.Glob(filepath.Join(repo, pat))
		for _, f := range m {
			dup := false
			for _, g := range files {
				dup = dup || g == f
			}
			if !dup {
				files = append(files, f)
			}
		}
	}
	if len(files) == 0 {
		t.Fatalf("INFRA: no sample configuration found under %s", repo)
	}
	for _, f := range files {
		ev.Evals++
		ev.NTCount++
		conf, err := pfcpiface.LoadConfigFile(f)
		if err != nil {
			failNow(t, ev, "sample", map[string]string{"file": f}, fmt.Errorf("shipped sample %s does not load: %v", f, err))
		}
		if verr := validConf(conf); verr != nil {
			failNow(t, ev, "sample", map[string]string{"file": f}, fmt.Errorf("shipped sample %s loads into an invalid configuration: %v", f, verr))
		}
		ev.Sample(map[string]string{"file": strings.TrimPrefix(f, repo+"/")})
	}
	ev.Rule = "every *.jsonc sample shipped in the repository is loaded and checked against the validity predicate"
}

func init() {
	registerFns = append(registerFns, func() {
		registerReplay("C18", "doc", runC18)
		registerReplay("C18", "sample", func(m map[string]string, ev *Ev) error {
			conf, err := pfcpiface.LoadConfigFile(m["file"])
			if err != nil {
				return err
			}
			return validConf(conf)
		})
	})
}
