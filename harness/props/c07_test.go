//go:build verif

package props

import (
	"fmt"
	"strings"
	"sync"
	"testing"

	"github.com/omec-project/upf-epc/pfcpiface"
	"github.com/wmnsk/go-pfcp/ie"
	"pgregory.net/rapid"

	"verif/harness/model"
	"verif/harness/sim"
)

// ---------- C07: UP-chosen identifiers are unique among live users and are those programmed ----------

// (a) the F-TEID generator directly

type teidOp struct {
	K  string `json:"k"` // alloc | free | freeunk
	N  int    `json:"n,omitempty"`
	Ix int    `json:"ix,omitempty"`
	Cur uint32 `json:"cur,omitempty"` // rewind: where the cursor is put (a later trip round the 32-bit range)
}

type c07Gen struct {
	Cursor uint32   `json:"cursor"`
	Ops    []teidOp `json:"ops"`
}

func runC07Gen(c c07Gen, ev *Ev) error {
	g := pfcpiface.NewFTEIDGenerator()
	pfcpiface.VerifFTEIDSetOffset(g, c.Cursor)
	held := map[uint32]bool{}
	var order []uint32
	wrapped, afterFree := false, false
	freed := false
	var last uint32
	for i, op := range c.Ops {
		switch op.K {
		case "alloc":
			for k := 0; k < op.N; k++ {
				id, err := g.Allocate()
				if err != nil {
					return fmt.Errorf("op %d: Allocate failed with %d ids held: %v", i, len(held), err)
				}
				if id == 0 {
					return fmt.Errorf("op %d: Allocate returned TEID 0 (cursor started at %d, %d held)", i, c.Cursor, len(held))
				}
				if held[id] {
					return fmt.Errorf("op %d: Allocate returned TEID %d which is still allocated", i, id)
				}
				if !g.IsAllocated(id) {
					return fmt.Errorf("op %d: IsAllocated(%d) is false right after allocation", i, id)
				}
				if last != 0 && id < last {
					wrapped = true
				}
				if freed {
					afterFree = true
				}
				last = id
				held[id] = true
				order = append(order, id)
			}
		case "free":
			if len(order) == 0 {
				continue
			}
			id := order[op.Ix%len(order)]
			order = append(order[:op.Ix%len(order)], order[op.Ix%len(order)+1:]...)
			g.FreeID(id)
			delete(held, id)
			freed = true
			if g.IsAllocated(id) {
				return fmt.Errorf("op %d: IsAllocated(%d) still true after FreeID", i, id)
			}
		case "rewind":
			// a later trip round the range: the cursor comes back to a region whose ids may still be held
			pfcpiface.VerifFTEIDSetOffset(g, op.Cur)
			last = 0
		case "freeunk":
			g.FreeID(0)
			g.FreeID(uint32(op.N) + 7)
			for id := range held {
				if id == uint32(op.N)+7 {
					delete(held, id)
					for k, o := range order {
						if o == id {
							order = append(order[:k], order[k+1:]...)
							break
						}
					}
				}
			}
		}
		for id := range held {
			if !g.IsAllocated(id) {
				return fmt.Errorf("op %d: TEID %d is held but IsAllocated says false", i, id)
			}
			break
		}
	}
	ev.Case(c, wrapped || afterFree, len(c.Ops))
	return nil
}

func genC07Gen(t *rapid.T) c07Gen {
	c := c07Gen{Cursor: rapid.OneOf(
		// the cursor lives in [0, 2^32-2] (it is reduced modulo 2^32-1): only reachable values are placed
		rapid.Uint32Range(0xfffffff0, 0xfffffffe),
		rapid.SampledFrom([]uint32{0, 1, 0xfffffffd, 0xfffffffe, 0x7fffffff, 0x80000000}),
		rapid.Uint32Range(0, 0xfffffffe),
	).Draw(t, "cursor")}
	n := rapid.IntRange(1, 30).Draw(t, "n")
	for i := 0; i < n; i++ {
		switch rapid.IntRange(0, 4).Draw(t, "k") {
		case 0, 1:
			c.Ops = append(c.Ops, teidOp{K: "alloc", N: rapid.IntRange(1, 6).Draw(t, "cnt")})
		case 2:
			c.Ops = append(c.Ops, teidOp{K: "free", Ix: rapid.IntRange(0, 50).Draw(t, "ix")})
		case 3:
			c.Ops = append(c.Ops, teidOp{K: "rewind", Cur: rapid.OneOf(rapid.Uint32Range(0xfffffff0, 0xfffffffe), rapid.Uint32Range(0, 8), rapid.Just(c.Cursor)).Draw(t, "cur")})
		default:
			c.Ops = append(c.Ops, teidOp{K: "freeunk", N: rapid.IntRange(0, 20).Draw(t, "unk")})
		}
	}
	return c
}

func TestC07Gen(t *testing.T) {
	ev := newEv("C07")
	ev.Rule = "F-TEID generator driven directly: allocate/free sequences with the cursor placed (hook) near 2^32 so that the wrap is crossed, and put back (rewind) into regions whose ids are still held, as on a later trip round the range; every id must be non-zero, not among the allocated ones, and IsAllocated must agree with the model; non-trivial = an id allocated after the cursor wrapped or after a free; distinct by case"
	runProp(t, ev, "gen", false, genC07Gen, runC07Gen)
}

// concurrent allocators (run under -race)
type c07Conc struct {
	Cursor uint32 `json:"cursor"`
	G      int    `json:"g"`
	N      int    `json:"n"`
}

func runC07Conc(c c07Conc, ev *Ev) error {
	g := pfcpiface.NewFTEIDGenerator()
	pfcpiface.VerifFTEIDSetOffset(g, c.Cursor)
	var mu sync.Mutex
	seen := map[uint32]int{}
	var wg sync.WaitGroup
	var firstErr error
	start := make(chan struct{})
	for w := 0; w < c.G; w++ {
		wg.Add(1)
		go func(w int) {
			defer wg.Done()
			<-start
			for k := 0; k < c.N; k++ {
				id, err := g.Allocate()
				mu.Lock()
				if err != nil && firstErr == nil {
					firstErr = fmt.Errorf("Allocate failed: %v", err)
				}
				if id == 0 && firstErr == nil {
					firstErr = fmt.Errorf("concurrent Allocate returned TEID 0")
				}
				seen[id]++
				if seen[id] > 1 && firstErr == nil {
					firstErr = fmt.Errorf("TEID %d handed out twice to concurrent allocators", id)
				}
				mu.Unlock()
				if k%3 == 2 {
					g.FreeID(id)
					mu.Lock()
					seen[id]--
					mu.Unlock()
				}
			}
		}(w)
	}
	close(start)
	wg.Wait()
	if firstErr != nil {
		return firstErr
	}
	ev.Case(c, c.G >= 2, c.G*c.N)
	return nil
}

func TestC07Conc(t *testing.T) {
	ev := newEv("C07")
	ev.Rule = "2-8 goroutines allocate (and partly free) TEIDs concurrently from one generator with the cursor near the wrap, under the race detector; no id may be zero or handed out twice while held"
	ev.Assume = []string{"interleavings are sampled by the Go scheduler"}
	runProp(t, ev, "conc", false, func(rt *rapid.T) c07Conc {
		return c07Conc{Cursor: rapid.SampledFrom([]uint32{0, 0xfffffff0, 0xfffffffe, 0xffffffd0}).Draw(rt, "cursor"), G: rapid.IntRange(2, 8).Draw(rt, "g"), N: rapid.IntRange(5, 40).Draw(rt, "n")}
	}, runC07Conc)
}

// (b) through PFCP with an adversarial random source

// scriptSource returns scripted values first, then fresh ones.
type scriptSource struct {
	mu     sync.Mutex
	script []uint64
	fresh  uint64
	draws  int
}

func (s *scriptSource) Uint64() uint64 {
	s.mu.Lock()
	defer s.mu.Unlock()
	s.draws++
	if len(s.script) > 0 {
		v := s.script[0]
		s.script = s.script[1:]
		return v
	}
	s.fresh += 0x9e3779b97f4a7c15
	return s.fresh
}
func (s *scriptSource) Int63() int64 { return int64(s.Uint64() >> 1) }
func (s *scriptSource) Seed(int64)   {}

type c07Step struct {
	K      string `json:"k"`      // est | del | modrej (removal of a CHOOSE PDR in a modification that is rejected) | modrem (accepted)
	Mode   string `json:"mode"`   // fresh | zero | collide | const
	R      int    `json:"r"`      // number of colliding draws before a fresh one
	Choose int    `json:"choose"` // number of CHOOSE F-TEID PDRs
	Sess   int    `json:"sess"`
}

type c07Wire struct {
	Cursor uint32    `json:"cursor"`
	Steps  []c07Step `json:"steps"`
}

func genC07Wire(t *rapid.T) c07Wire {
	c := c07Wire{Cursor: rapid.SampledFrom([]uint32{0, 5, 0xfffffffa, 0xfffffffe, 0xfffffffd, 0x7ffffffe}).Draw(t, "cursor")}
	n := rapid.IntRange(2, 14).Draw(t, "n")
	sess := 0
	for i := 0; i < n; i++ {
		if sess > 0 && rapid.IntRange(0, 4).Draw(t, "del?") == 0 {
			c.Steps = append(c.Steps, c07Step{K: "del", Sess: rapid.IntRange(0, sess-1).Draw(t, "dsess")})
			continue
		}
		if sess > 0 && rapid.IntRange(0, 3).Draw(t, "mod?") == 0 {
			c.Steps = append(c.Steps, c07Step{K: rapid.SampledFrom([]string{"modrej", "modrej", "modrem", "modupd-echo", "modupd-new", "modupd-steal"}).Draw(t, "modk"), Sess: rapid.IntRange(0, sess-1).Draw(t, "msess")})
			continue
		}
		st := c07Step{K: "est", Sess: sess, Choose: rapid.IntRange(0, 3).Draw(t, "choose"),
			Mode: rapid.SampledFrom([]string{"fresh", "zero", "collide", "collide", "const", "zerothenfresh"}).Draw(t, "mode")}
		st.R = rapid.SampledFrom([]int{1, 2, 50, 98, 99, 100, 101, 150}).Draw(t, "r")
		c.Steps = append(c.Steps, st)
		sess++
	}
	return c
}

func runC07Wire(c c07Wire, ev *Ev) error {
	r, err := newRig(RigOpts{})
	if err != nil {
		return fmt.Errorf("INFRA: %v", err)
	}
	run, err := r.newRunner(1)
	if err != nil {
		return fmt.Errorf("INFRA: %v", err)
	}
	defer run.Close()
	if o := run.Exec(opAssoc(0, 1)); !o.Accepted {
		return fmt.Errorf("INFRA: association not accepted")
	}
	src := &scriptSource{fresh: 0x1000}
	if n := r.A.Iface.VerifSetSEIDSource(src); n != 1 {
		return fmt.Errorf("INFRA: %d connection objects, want 1", n)
	}
	r.A.Iface.VerifTEIDSetCursor(c.Cursor)
	teids := map[uint32]int{}
	env := bessEnv()
	repeated := false
	// held: the chosen TEIDs that live sessions hold right now; the generator's bookkeeping (hook) must agree
	// with it after every step, whatever was rejected on the way
	held := map[uint32]string{}
	// limbo: TEIDs chosen for a PDR of a live session that an Update PDR has since moved to a TEID of the control
	// plane's own choice: nobody uses them any more, they may be released at once or with the session, not later
	limbo := map[uint32]string{}
	// imageOff: once an Update PDR has moved a PDR to another TEID, the BESS image is no longer compared: the entry
	// under the old key stays behind, which is the recorded finding KF-C03-D15 (hazard updatePDRChangesMatch); the
	// identifier bookkeeping - this property - is still checked after every step
	imageOff := false
	image := func() error {
		if imageOff {
			return nil
		}
		return run.CheckBessImage(r.B.Snap(), env, sim.BessImageOpts{})
	}
	checkHeld := func(i int, what string) error {
		for tv, owner := range held {
			if ok, _ := r.A.Iface.VerifTEIDAllocated(tv); !ok {
				return fmt.Errorf("step %d (%s): TEID %d is held by live %s but the agent considers it free - it can be handed to another session", i, what, tv, owner)
			}
		}
		// (a TEID that stays allocated although nobody holds it is a leak - property C05 - and not asserted here)
		if _, n := r.A.Iface.VerifTEIDAllocated(0); n < len(held) {
			return fmt.Errorf("step %d (%s): the agent counts %d allocated TEIDs, live sessions hold %d", i, what, n, len(held))
		}
		return nil
	}
	rejMods := 0
	for i, st := range c.Steps {
		if st.K == "del" {
			if s := run.Sess[st.Sess]; s != nil && s.Live {
				if o := run.Exec(model.Op{Kind: "del", Peer: 0, Seq: uint32(500 + i), Sess: st.Sess}); !o.Accepted {
					return fmt.Errorf("step %d: deletion of live session %d rejected", i, st.Sess)
				}
				for _, m := range []map[uint32]string{held, limbo} {
					for tv, owner := range m {
						if owner == fmt.Sprintf("session %d", st.Sess) || strings.HasPrefix(owner, fmt.Sprintf("session %d ", st.Sess)) {
							delete(m, tv)
						}
					}
				}
			}
			if err := checkHeld(i, "del"); err != nil {
				return err
			}
			continue
		}
		if st.K == "modupd-echo" || st.K == "modupd-new" || st.K == "modupd-steal" {
			// Update PDR of a PDR whose F-TEID the UP function chose: the control plane restates the PDI with the
			// TEID it was given (echo), or moves the PDR to a TEID of its own
			s := run.Sess[st.Sess]
			if s == nil || !s.Live {
				continue
			}
			tv, has := s.ChosenTEID[10]
			var cur *model.PDR
			for k := range s.PDRs {
				if s.PDRs[k].ID == 10 {
					cur = &s.PDRs[k]
				}
			}
			if !has || cur == nil || !cur.Choose {
				continue
			}
			if _, isHeld := held[tv]; !isHeld {
				continue
			}
			np := *cur
			np.Choose, np.N3 = false, accessIP()
			switch st.K {
			case "modupd-echo":
				np.TEID = tv
			case "modupd-new":
				np.TEID = uint32(0x700000 + i)
			default:
				// the control plane's own TEID happens to be one the UP function chose for another live session:
				// that session keeps holding it whatever becomes of this one
				found := false
				for other, owner := range held {
					if other != tv && !strings.HasPrefix(owner, fmt.Sprintf("session %d ", st.Sess)) && (!found || other < np.TEID) {
						np.TEID, found = other, true
					}
				}
				if !found || !excluded("updatePDRChangesMatch") {
					continue // two rules under one key: only meaningful while the image is not compared
				}
			}
			o := run.Exec(model.Op{Kind: "mod", Peer: 0, Seq: uint32(700 + i), Sess: st.Sess, Note: "any", UpdPDRs: []model.PDR{np}})
			if o.NoResp || !o.Alive {
				return fmt.Errorf("step %d: modification not answered", i)
			}
			if !o.Accepted {
				return fmt.Errorf("step %d (%s): Update PDR restating PDR 10 with an explicit F-TEID rejected (cause %d)", i, st.K, o.Cause)
			}
			if st.K != "modupd-echo" {
				limbo[tv] = held[tv]
				delete(held, tv)
				if excluded("updatePDRChangesMatch") && !imageOff {
					imageOff = true
					ev.Exclude("image comparison after a key-changing Update PDR (KF-C03-D15)")
				}
			}
			if err := checkHeld(i, st.K); err != nil {
				return err
			}
			if err := image(); err != nil {
				return fmt.Errorf("step %d (%s): %w", i, st.K, err)
			}
			ev.Label(st.K)
			continue
		}
		if st.K == "modrej" || st.K == "modrem" {
			s := run.Sess[st.Sess]
			if s == nil || !s.Live {
				continue
			}
			tv, has := s.ChosenTEID[10]
			stillThere := false
			for _, pd := range s.PDRs {
				stillThere = stillThere || pd.ID == 10
			}
			if !has || !stillThere {
				continue
			}
			op := model.Op{Kind: "mod", Peer: 0, Seq: uint32(700 + i), Sess: st.Sess, Note: "any", RemPDRs: []uint16{10}}
			if st.K == "modrej" {
				op.RemFARs = []uint32{77} // no such FAR: the whole modification must be refused
			}
			o := run.Exec(op)
			if o.NoResp || !o.Alive {
				return fmt.Errorf("step %d: modification not answered", i)
			}
			if st.K == "modrej" {
				if o.Accepted {
					return fmt.Errorf("step %d: a modification removing the unknown FAR 77 was accepted", i)
				}
				rejMods++
			} else {
				if !o.Accepted {
					return fmt.Errorf("step %d: removal of PDR 10 rejected (cause %d)", i, o.Cause)
				}
				delete(held, tv)
				delete(limbo, tv)
			}
			if err := checkHeld(i, st.K); err != nil {
				return err
			}
			if err := image(); err != nil {
				return fmt.Errorf("step %d (%s): %w", i, st.K, err)
			}
			ev.Label(st.K)
			continue
		}
		var live []uint64
		for _, s := range run.LiveSessions() {
			live = append(live, s.UPSEID)
		}
		mustReject := false
		src.mu.Lock()
		src.script = nil
		switch st.Mode {
		case "zero":
			for k := 0; k < 200; k++ {
				src.script = append(src.script, 0)
			}
			mustReject = true
		case "zerothenfresh":
			src.script = []uint64{0, 0}
		case "const":
			if len(live) > 0 {
				for k := 0; k < 200; k++ {
					src.script = append(src.script, live[0])
				}
				mustReject = true
				repeated = true
			}
		case "collide":
			if len(live) > 0 {
				for k := 0; k < st.R; k++ {
					src.script = append(src.script, live[k%len(live)])
				}
				mustReject = st.R >= 100
				repeated = true
			}
		}
		src.mu.Unlock()
		op := model.Op{Kind: "est", Peer: 0, Seq: uint32(100 + i), Sess: st.Sess, CPSEID: uint64(40 + i), Note: "any"}
		ue := fmt.Sprintf("10.63.0.%d", st.Sess+1)
		op.FARs = []model.FAR{{ID: 1, Action: model.ActFORW, HasFwd: true, DstIf: model.IfCore}, {ID: 2, Action: model.ActDROP}}
		op.PDRs = []model.PDR{{ID: 1, Prec: 5, Src: "core", HasUE: true, UEIP: ue, FAR: 2}}
		for k := 0; k < st.Choose; k++ {
			op.PDRs = append(op.PDRs, model.PDR{ID: uint16(10 + k), Prec: uint32(10 + k), Src: "access", FTEID: true, Choose: true, OHR: true, FAR: 1,
				SDF: fmt.Sprintf("permit out udp from 8.8.%d.0/24 to assigned", k)})
		}
		o := run.Exec(op)
		if o.NoResp || !o.Alive {
			return fmt.Errorf("step %d: establishment not answered", i)
		}
		if !o.Accepted {
			if !mustReject && st.Mode != "zerothenfresh" && st.Mode != "collide" {
				return fmt.Errorf("step %d (%s): establishment rejected (cause %d) although the source yields a fresh value", i, st.Mode, o.Cause)
			}
			if st.Mode == "collide" && st.R < 100 {
				return fmt.Errorf("step %d: establishment rejected after only %d colliding draws (cause %d)", i, st.R, o.Cause)
			}
			if o.Cause == ie.CauseRequestAccepted {
				return fmt.Errorf("step %d: rejection without cause", i)
			}
			ev.Label("rejected/" + st.Mode)
			continue
		}
		s := run.Sess[st.Sess]
		if s.UPSEID == 0 {
			return fmt.Errorf("step %d (%s): accepted establishment carries UP F-SEID 0", i, st.Mode)
		}
		for _, l := range live {
			if l == s.UPSEID {
				return fmt.Errorf("step %d (%s, r=%d): accepted establishment reuses UP SEID %#x of a live session", i, st.Mode, st.R, l)
			}
		}
		if mustReject {
			return fmt.Errorf("step %d (%s, r=%d): the source cannot produce a fresh SEID, yet the establishment was accepted with %#x", i, st.Mode, st.R, s.UPSEID)
		}
		if len(s.ChosenTEID) != st.Choose {
			return fmt.Errorf("step %d: %d chosen TEIDs reported, want %d", i, len(s.ChosenTEID), st.Choose)
		}
		for id, tv := range s.ChosenTEID {
			if tv == 0 {
				return fmt.Errorf("step %d: chosen TEID of PDR %d is 0", i, id)
			}
			if prev, dup := teids[tv]; dup {
				return fmt.Errorf("step %d: TEID %d chosen for PDR %d was already chosen at step %d and never released", i, tv, id, prev)
			}
			teids[tv] = i
			held[tv] = fmt.Sprintf("session %d PDR %d", st.Sess, id)
			if s.ChosenN3[id] != accessIP() {
				return fmt.Errorf("step %d: Created PDR %d carries address %s, want the access address %s", i, id, s.ChosenN3[id], accessIP())
			}
		}
		// the values reported are the values programmed
		if err := image(); err != nil {
			return fmt.Errorf("step %d: reported identifiers differ from the programmed ones: %w", i, err)
		}
		if err := checkHeld(i, "est"); err != nil {
			return err
		}
		ev.Label("accepted/" + st.Mode)
	}
	ev.Case(c, repeated || c.Cursor > 0xfffffff0 || rejMods > 0, len(c.Steps))
	return nil
}

func TestC07Wire(t *testing.T) {
	ev := newEv("C07")
	ev.Rule = "fresh agent per case; establishment histories with deletions where the association's random source is replaced (hook) by adversarial ones (constant, constant 0, zeros then fresh, 'collide with live SEIDs for r draws then fresh' with r around the retry limit 100) and the F-TEID cursor is placed near the 32-bit wrap; 0-3 CHOOSE F-TEIDs per session; modifications that remove a CHOOSE PDR and are accepted, or rejected because a later Remove IE names an unknown rule; the reported F-SEID/F-TEIDs must be those in the harness BESS tables and after every step the agent's set of allocated TEIDs (hook) must be exactly what live sessions hold; non-trivial = the source repeated a live SEID at least once, the cursor wrapped, or a modification was rejected; distinct by case"
	runProp(t, ev, "wire", true, genC07Wire, runC07Wire)
}

func init() {
	registerFns = append(registerFns, func() {
		registerReplay("C07", "gen", runC07Gen)
		registerReplay("C07", "conc", runC07Conc)
		registerReplay("C07", "wire", runC07Wire)
	})
}
