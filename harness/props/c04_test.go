package props

import (
	"fmt"
	"testing"
	"time"

	"github.com/omec-project/upf-epc/pfcpiface"
	"pgregory.net/rapid"

	"verif/harness/model"
	"verif/harness/sim"
)

// ---------- C04: UP4 tables are exactly the image of the live sessions' rules ----------

type up4Variant struct {
	Slice     uint8
	DefaultTC uint8
	QFIToTC   map[uint8]uint8
	Alloc     bool
}

var up4Variants = []up4Variant{
	{Slice: 0, DefaultTC: 3, QFIToTC: nil},
	{Slice: 5, DefaultTC: 1, QFIToTC: map[uint8]uint8{9: 2, 5: 0, 1: 3}},
	{Slice: 15, DefaultTC: 0, QFIToTC: map[uint8]uint8{0: 1, 9: 3, 63: 2}, Alloc: true},
}

func up4Rig(v int) (*Rig, error) {
	uv := up4Variants[v]
	return sharedRig(fmt.Sprintf("up4-v%d", v), RigOpts{UP4: true, Mut: func(c *pfcpiface.Conf) {
		c.P4rtcIface.SliceID = uv.Slice
		c.P4rtcIface.DefaultTC = uv.DefaultTC
		c.P4rtcIface.QFIToTC = uv.QFIToTC
		c.CPIface.EnableUeIPAlloc = uv.Alloc
	}})
}

func up4RigFresh(v int) (*Rig, error) {
	uv := up4Variants[v]
	return newRig(RigOpts{UP4: true, Mut: func(c *pfcpiface.Conf) {
		c.P4rtcIface.SliceID = uv.Slice
		c.P4rtcIface.DefaultTC = uv.DefaultTC
		c.P4rtcIface.QFIToTC = uv.QFIToTC
		c.CPIface.EnableUeIPAlloc = uv.Alloc
	}})
}

func up4Env(v int) sim.UP4Env {
	uv := up4Variants[v]
	return sim.UP4Env{AccessIP: model.IP2U("198.18.0.1"), AccessLen: 32, PoolNet: model.IP2U("10.250.0.0"), PoolLen: 16,
		Slice: uint64(uv.Slice), DefaultTC: uint64(uv.DefaultTC), QFIToTC: uv.QFIToTC}
}

var up4SDFs = []string{"", "permit out udp from 8.8.8.0/24 to assigned", "permit out tcp from 172.16.0.0/12 80-443 to assigned", "permit out ip from 192.0.2.1/32 to assigned", "permit out 132 from any 5000 to assigned"}
var up4GNBs = []string{"198.18.5.1", "198.18.5.2", "198.18.5.3"}

type up4GenSess struct {
	peer int
	live bool
	// frozen: a key-changing Update PDR was sent, whose outcome the open-loop generator cannot know; the
	// session's PDRs are not re-stated any more
	frozen bool
	dlFAR  model.FAR
	pdrs   []model.PDR
	qers   []model.QER
}

// genUP4DLFAR draws a downlink FAR as an Update FAR states it; genUP4DLFARCreate as a Create FAR does (a rule created
// with another action than forward carries no Forwarding Parameters, TS 29.244 table 7.5.2.3-1).
func genUP4DLFARCreate(t *rapid.T, id uint32) model.FAR {
	f := genUP4DLFAR(t, id)
	if f.Action&model.ActFORW == 0 {
		f = model.FAR{ID: id, Action: f.Action, HasFwd: true}
	}
	return f
}

func genUP4DLFAR(t *rapid.T, id uint32) model.FAR {
	switch rapid.IntRange(0, 5).Draw(t, "dlfar") {
	case 0:
		return model.FAR{ID: id, Action: model.ActBUFF | model.ActNOCP, HasFwd: true}
	case 1:
		return model.FAR{ID: id, Action: model.ActDROP, HasFwd: true}
	case 2:
		// the rule buffers or drops but keeps naming its tunnel (an idle UE whose gNB tunnel the control plane
		// goes on stating): it needs no tunnel peer meanwhile
		return model.FAR{ID: id, Action: rapid.SampledFrom([]uint8{model.ActBUFF | model.ActNOCP, model.ActBUFF, model.ActDROP}).Draw(t, "idleaction"),
			HasFwd: true, DstIf: model.IfAccess, HasOHC: true,
			TEID: uint32(rapid.IntRange(1, 1<<30).Draw(t, "dlteid")), Peer: rapid.SampledFrom(up4GNBs).Draw(t, "gnb")}
	}
	return model.FAR{ID: id, Action: model.ActFORW, HasFwd: true, DstIf: model.IfAccess, HasOHC: true,
		TEID: uint32(rapid.IntRange(1, 1<<30).Draw(t, "dlteid")), Peer: rapid.SampledFrom(up4GNBs).Draw(t, "gnb")}
}

func genUP4Sess(t *rapid.T, idx, peer int, alloc bool, precWide bool) (model.Op, *up4GenSess) {
	ue := fmt.Sprintf("10.250.%d.%d", 1+idx%200, 1+rapid.IntRange(0, 200).Draw(t, "uehost"))
	op := model.Op{Kind: "est", Peer: peer, Seq: uint32(1000 + idx), Sess: idx, CPSEID: uint64(2000 + idx)}
	g := &up4GenSess{peer: peer, live: true}
	// QER shape: none | one application QER | application + session QER
	var ql []uint32
	switch rapid.IntRange(0, 2).Draw(t, "qshape") {
	case 1:
		q := genQER(t, 1, false)
		q.GBRUL, q.GBRDL = 0, 0
		op.QERs = []model.QER{q}
		ql = []uint32{1}
	case 2:
		q1 := genQER(t, 1, false)
		q2 := genQER(t, 2, false)
		q1.GBRUL, q1.GBRDL, q2.GBRUL, q2.GBRDL = 0, 0, 0, 0
		if excluded("up4AppQerAsymmetricRates") {
			// KF-C09-D32: whichever of the two the agent makes the application QER must have one rate
			q1.MBRDL = q1.MBRUL
			q2.MBRDL = q2.MBRUL
		}
		op.QERs = []model.QER{q1, q2}
		ql = []uint32{1, 2}
	}
	g.qers = op.QERs
	nPairs := rapid.IntRange(1, 2).Draw(t, "pairs")
	choose := rapid.Bool().Draw(t, "choose")
	useAlloc := alloc && rapid.Bool().Draw(t, "alloc")
	used := map[string]bool{}
	g.dlFAR = genUP4DLFARCreate(t, 2)
	op.FARs = []model.FAR{{ID: 1, Action: model.ActFORW, HasFwd: true, DstIf: model.IfCore}, g.dlFAR}
	for i := 0; i < nPairs; i++ {
		sdf := rapid.SampledFrom(up4SDFs).Draw(t, "sdf")
		if used[sdf] {
			continue
		}
		used[sdf] = true
		// an application filter comes with its precedence (the same filter shared by several sessions has one
		// applications entry and therefore one priority)
		prec := uint32(10)
		for k, x := range up4SDFs {
			if x == sdf {
				prec = uint32(10 + 7*k)
			}
		}
		if precWide {
			prec = rapid.OneOf(rapid.Uint32Range(0, 65534), rapid.SampledFrom([]uint32{0, 1, 65533, 65534})).Draw(t, "precw")
		} else if rapid.IntRange(0, 2).Draw(t, "precjit") == 0 {
			// the same filter under a slightly different precedence in another session: still one applications
			// entry (installed under the precedence of its first user), which must go with its last user
			// whatever that one's precedence; the offsets keep the order between different filters
			prec += uint32(rapid.IntRange(1, 3).Draw(t, "precoff"))
		}
		up := model.PDR{ID: uint16(1 + 2*i), Prec: prec, Src: "access", FTEID: true, OHR: true, FAR: 1, QERs: ql, SDF: sdf}
		if choose {
			up.Choose = true
		} else {
			up.TEID, up.N3 = uint32(idx+1)<<12|uint32(rapid.IntRange(1, 0xfff).Draw(t, "teid")), "198.18.0.1"
		}
		dn := model.PDR{ID: uint16(2 + 2*i), Prec: prec, Src: "core", HasUE: true, FAR: 2, QERs: ql, SDF: sdf}
		if useAlloc {
			dn.UEAlloc = true
		} else {
			dn.UEIP = ue
		}
		op.PDRs = append(op.PDRs, up, dn)
	}
	wireOrder(t, op.PDRs, op.FARs, op.QERs)
	g.dlFAR = op.FARs[1]
	g.pdrs = op.PDRs
	return op, g
}

func genC04(ev *Ev) func(t *rapid.T) model.Case {
	return func(t *rapid.T) model.Case {
		v := rapid.IntRange(0, len(up4Variants)-1).Draw(t, "variant")
		nPeers := rapid.IntRange(1, 2).Draw(t, "peers")
		var ops []model.Op
		for p := 0; p < nPeers; p++ {
			ops = append(ops, opAssoc(p, uint32(100+p)))
		}
		var gs []*up4GenSess
		n := rapid.IntRange(1, scale(14, 24)).Draw(t, "n")
		seq := uint32(5000)
		for i := 0; i < n; i++ {
			seq++
			var liveIdx []int
			for k, s := range gs {
				if s.live {
					liveIdx = append(liveIdx, k)
				}
			}
			switch rapid.SampledFrom([]string{"est", "est", "updfar", "updfar", "updfar", "del", "updqer", "updpdr", "updpdr-key"}).Draw(t, "k") {
			case "est":
				if len(liveIdx) >= 4 {
					continue
				}
				op, g := genUP4Sess(t, len(gs), rapid.IntRange(0, nPeers-1).Draw(t, "peer"), up4Variants[v].Alloc, false)
				ops = append(ops, op)
				gs = append(gs, g)
			case "updfar":
				if len(liveIdx) == 0 {
					continue
				}
				si := liveIdx[rapid.IntRange(0, len(liveIdx)-1).Draw(t, "si")]
				nf := genUP4DLFAR(t, 2)
				// the Destination Interface IE may be left out when it does not change (downlink stays downlink)
				nf.OmitDstIf = nf.HasFwd && rapid.IntRange(0, 3).Draw(t, "omitdstif") == 0
				gs[si].dlFAR = nf
				ops = append(ops, model.Op{Kind: "mod", Peer: gs[si].peer, Seq: seq, Sess: si, UpdFARs: []model.FAR{nf}, Note: "updfar"})
			case "updpdr-key":
				// an Update PDR that moves a rule to another table key (new TEID of an uplink PDR, new UE address
				// of a downlink PDR). The UP4 plug-in writes modifications with MODIFY, which a P4Runtime switch
				// refuses for a key it does not hold: the request must be rejected - or, if it is accepted, the
				// tables must be the image of the new rules.
				if len(liveIdx) == 0 {
					continue
				}
				si := liveIdx[rapid.IntRange(0, len(liveIdx)-1).Draw(t, "si")]
				var cand []model.PDR
				alloc := false
				for _, pd := range gs[si].pdrs {
					alloc = alloc || pd.UEAlloc
				}
				for _, pd := range gs[si].pdrs {
					if !pd.Choose && !alloc {
						cand = append(cand, pd)
					}
				}
				if len(cand) == 0 || gs[si].frozen {
					continue
				}
				if excluded("up4UpdatePDRMovesToExistingKey") {
					ev.Exclude("up4UpdatePDRMovesToExistingKey")
				}
				pd := cand[rapid.IntRange(0, len(cand)-1).Draw(t, "pdri")]
				if pd.Src == "access" {
					// a TEID no rule holds (KF-C04-D15: moving a rule onto a key that another rule of the session
					// already holds is accepted and leaves the entry under the old key behind)
					pd.TEID = 0x800000 | uint32(si+1)<<12 | uint32(rapid.IntRange(1, 0xfff).Draw(t, "nteid"))
					if !excluded("up4UpdatePDRMovesToExistingKey") && rapid.IntRange(0, 3).Draw(t, "ontoexisting") == 0 {
						for _, other := range gs[si].pdrs {
							if other.Src == "access" && other.ID != pd.ID && !other.Choose {
								pd.TEID = other.TEID
							}
						}
					}
				} else {
					pd.UEIP = fmt.Sprintf("10.250.%d.%d", 201+si%50, 1+rapid.IntRange(0, 200).Draw(t, "nue"))
				}
				gs[si].frozen = true
				ops = append(ops, model.Op{Kind: "mod", Peer: gs[si].peer, Seq: seq, Sess: si, UpdPDRs: []model.PDR{pd}, Note: "updpdr-key"})
			case "updpdr":
				// an Update PDR that re-states one of the session's PDRs (rules whose F-TEID or UE address the UP
				// chose cannot be re-stated open-loop)
				if len(liveIdx) == 0 {
					continue
				}
				si := liveIdx[rapid.IntRange(0, len(liveIdx)-1).Draw(t, "si")]
				var cand []model.PDR
				alloc := false
				for _, pd := range gs[si].pdrs {
					alloc = alloc || pd.UEAlloc
				}
				for _, pd := range gs[si].pdrs {
					if !pd.Choose && !alloc {
						cand = append(cand, pd)
					}
				}
				if len(cand) == 0 || gs[si].frozen {
					continue
				}
				pd := cand[rapid.IntRange(0, len(cand)-1).Draw(t, "pdri")]
				ops = append(ops, model.Op{Kind: "mod", Peer: gs[si].peer, Seq: seq, Sess: si, UpdPDRs: []model.PDR{pd}, Note: "updpdr"})
			case "updqer":
				if len(liveIdx) == 0 || excluded("up4UpdateQER") {
					if excluded("up4UpdateQER") {
						ev.Exclude("up4UpdateQER")
					}
					continue
				}
				si := liveIdx[rapid.IntRange(0, len(liveIdx)-1).Draw(t, "si")]
				if len(gs[si].qers) == 0 {
					continue
				}
				q := genQER(t, 1, false)
				q.GBRUL, q.GBRDL = 0, 0
				// only gates / QFI change here: rates are C09's business
				q.MBRUL, q.MBRDL = gs[si].qers[0].MBRUL, gs[si].qers[0].MBRDL
				gs[si].qers[0] = q
				ops = append(ops, model.Op{Kind: "mod", Peer: gs[si].peer, Seq: seq, Sess: si, UpdQERs: []model.QER{q}, Note: "updqer"})
			case "del":
				if len(liveIdx) == 0 {
					continue
				}
				si := liveIdx[rapid.IntRange(0, len(liveIdx)-1).Draw(t, "si")]
				gs[si].live = false
				ops = append(ops, model.Op{Kind: "del", Peer: gs[si].peer, Seq: seq, Sess: si})
			}
		}
		return model.Case{Conf: map[string]any{"variant": v}, Ops: ops}
	}
}

func variantOf(c model.Case) int {
	switch x := c.Conf["variant"].(type) {
	case float64:
		return int(x)
	case int:
		return x
	}
	return 0
}

// cleanStartP4 makes sure the shared switch holds nothing of an earlier case but the interfaces.
func cleanStartP4(r *Rig, ev *Ev) {
	r.P4.WaitQuiet(2 * time.Second)
	s := r.P4.Snap()
	n := 0
	for name, es := range s.Tables {
		if name != "interfaces" {
			n += len(es)
		}
	}
	if n != 0 || len(s.Meters) != 0 {
		ev.Label("dirty-start")
		r.P4.ResetExceptInterfaces()
	}
}

func p4Diag(r *Rig, from int) string {
	out := "writes:"
	for _, w := range r.P4.LogSince(from) {
		out += fmt.Sprintf("\n  #%d %v errs=%v failed=%q", w.Seq, w.Kinds, w.Errors, w.Failed)
	}
	return out
}

func runC04(c model.Case, ev *Ev) error {
	v := variantOf(c)
	// a fresh switch and agent per case: the agent's bookkeeping and the switch must start in step
	r, err := up4RigFresh(v)
	if err != nil {
		return fmt.Errorf("INFRA: %v", err)
	}
	run, err := r.newRunner(peersOf(c))
	if err != nil {
		return fmt.Errorf("INFRA: %v", err)
	}
	defer run.Close()
	env := up4Env(v)
	maxLive, nUpd := 0, 0
	shared := false
	for i, op := range c.Ops {
		o := run.Exec(op)
		if o.NoResp || !o.Alive {
			return fmt.Errorf("op %d (%s): no response", i, op.Kind)
		}
		if op.Kind == "assoc" {
			if !o.Accepted {
				return fmt.Errorf("INFRA: association rejected (datapath not connected?)")
			}
			continue
		}
		if !o.Accepted && op.Note == "updpdr-key" {
			ev.Label("mod/updpdr-key/rejected")
			continue // refused: nothing is claimed about the tables until the next accepted request
		}
		if !o.Accepted {
			return fmt.Errorf("op %d: %s %s inside the UP4 envelope rejected with cause %d\n%s", i, op.Kind, op.Note, o.Cause, p4Diag(r, o.CmdFrom))
		}
		if op.Kind == "mod" && len(op.UpdFARs) > 0 {
			nUpd++
		}
		live := run.LiveSessions()
		if len(live) > maxLive {
			maxLive = len(live)
		}
		gn := map[string]int{}
		for _, s := range live {
			for _, f := range s.FARs {
				if f.HasOHC {
					gn[f.Peer]++
					shared = shared || gn[f.Peer] > 1
				}
			}
		}
		if _, err := run.CheckUP4Image(r.P4.Snap(), env, sim.UP4Opts{Meters: true}); err != nil {
			return fmt.Errorf("after op %d (%s %s): %w\n%s", i, op.Kind, op.Note, err, p4Diag(r, o.CmdFrom))
		}
		ev.Label(op.Kind + "/" + op.Note)
	}
	ev.Case(c, maxLive >= 2 && shared && nUpd >= 1, len(c.Ops))
	return nil
}

func TestC04(t *testing.T) {
	ev := newEv("C04")
	ev.Rule = "rapid state machine on the P4Runtime datapath under 3 configurations (slice id, default TC, QFI->TC map, UE-IP allocation): up to 4 live sessions over 1-2 associations sharing gNB addresses and application filters, uplink F-TEID given or CHOOSE, QER shapes none/[app]/[app,session]; Update FAR (forward<->buffer<->drop, new TEID/peer), Update QER (gates/QFI), deletion; after every accepted request the harness P4Runtime server's state is compared with the denotation up to a bijection on agent-chosen ids; non-trivial = >=2 live sessions sharing a gNB and >=1 Update FAR; distinct by case"
	ev.Assume = []string{"P4Runtime write semantics of the harness server follow the specification (INSERT->ALREADY_EXISTS, MODIFY/DELETE->NOT_FOUND, per-update errors under UNKNOWN)",
		"envelope: every uplink PDR has a downlink PDR in the same session; all downlink PDRs of a session use one FAR; precedence < 65535"}
	runProp(t, ev, "history", true, genC04(ev), runC04)
}

func init() {
	registerFns = append(registerFns, func() { registerReplay("C04", "history", runC04) })
}
