//go:build verif

package props

import (
	"fmt"
	"net"
	"os"
	"runtime"
	"strings"
	"sync"
	"testing"
	"time"

	"github.com/omec-project/upf-epc/pfcpiface"
	"pgregory.net/rapid"

	"verif/harness/model"
	"verif/harness/rig"
)

// ---------- C10: associations end cleanly and the agent always stops ----------

type c10Assoc struct {
	Sess     int    `json:"sess"`
	Trigger  string `json:"trigger"` // none | release | silence | hbfail | vanish (the peer's socket closes right after a request: the agent's answer is refused)
	JitterMs int    `json:"jitter_ms"`
	// InFlight: a session request ("mod", "est", "del"; "" = none) is sent LeadMs before the instant at which
	// the association is expected to be torn down (release datagram, read timeout, heartbeat verdict, Stop()),
	// so that it is being handled - the datapath stand-in serves every command DelayMs late - when the
	// teardown begins.
	InFlight string `json:"inflight,omitempty"`
	LeadMs   int    `json:"lead_ms,omitempty"`
	// Reassoc (hbfail): once the first heartbeat has gone unanswered the peer sets the association up again on the
	// same connection (a control plane that restarted) and then stays silent: the teardown must still come
	Reassoc bool `json:"reassoc,omitempty"`
}

type c10Case struct {
	Assocs   []c10Assoc `json:"assocs"`
	Stop     bool       `json:"stop"`
	StopJit  int        `json:"stop_jitter_ms"`
	HB       bool       `json:"hb"`       // heartbeat timer enabled
	Release2 bool       `json:"release2"` // the Association Release Request is sent twice back to back
	DelayMs  int        `json:"delay_ms"` // service delay of every datapath command
	// Churn (with Stop only): this many senders keep opening new sockets and sending a first datagram (an Association
	// Setup Request) from each, from a few ms before Stop() is called until it has returned: peers that are just
	// being accepted while the agent stops
	Churn int `json:"churn,omitempty"`
	// Crowd (with Stop only): this many further associations (no sessions) are set up shortly before Stop() - the
	// agent must stop in bounded time with any number of live associations, also with more than its queues hold
	Crowd int `json:"crowd,omitempty"`
}

func genC10(t *rapid.T) c10Case {
	c := c10Case{Stop: rapid.Bool().Draw(t, "stop"), StopJit: rapid.IntRange(0, 30).Draw(t, "stopjit"), HB: rapid.Bool().Draw(t, "hb"), Release2: rapid.IntRange(0, 3).Draw(t, "rel2") == 0,
		DelayMs: rapid.SampledFrom([]int{0, 4, 15}).Draw(t, "delay")}
	n := rapid.IntRange(0, 4).Draw(t, "n")
	for i := 0; i < n; i++ {
		// with heartbeats on, a peer that answers them is never silent: the read timeout is only
		// reachable with heartbeats off, heartbeat failure only with heartbeats on
		trig := []string{"none", "release", "release", "silence", "silence", "vanish"}
		if c.HB {
			trig = []string{"none", "release", "release", "hbfail", "hbfail"}
		}
		a := c10Assoc{Sess: rapid.IntRange(0, 3).Draw(t, "sess"), Trigger: rapid.SampledFrom(trig).Draw(t, "trigger"),
			JitterMs: rapid.IntRange(0, 30).Draw(t, "jit"), InFlight: rapid.SampledFrom([]string{"", "mod", "est", "del"}).Draw(t, "inflight"),
			LeadMs: rapid.IntRange(0, 12).Draw(t, "lead")}
		a.Reassoc = a.Trigger == "hbfail" && rapid.IntRange(0, 2).Draw(t, "reassoc") == 0
		if a.InFlight == "est" && a.Trigger == "none" && !c.Stop {
			a.InFlight = "mod" // the session of an in-flight establishment is only accounted for when its association ends
		}
		if (a.InFlight == "mod" || a.InFlight == "del") && a.Sess == 0 {
			a.InFlight = "est"
			if a.Trigger == "none" && !c.Stop {
				a.InFlight = ""
			}
		}
		c.Assocs = append(c.Assocs, a)
	}
	if c.Stop {
		c.Churn = rapid.SampledFrom([]int{0, 0, 1, 2}).Draw(t, "churn")
		if rapid.IntRange(0, 7).Draw(t, "crowded") == 0 {
			c.Crowd = rapid.SampledFrom([]int{40, 99, 100, 101, 130, 180}).Draw(t, "crowd")
		}
	}
	return c
}

func dumpGoroutines() string {
	buf := make([]byte, 1<<20)
	n := runtime.Stack(buf, true)
	s := string(buf[:n])
	var keep []string
	for _, g := range strings.Split(s, "\n\n") {
		if strings.Contains(g, "/repo/pfcpiface") {
			keep = append(keep, g)
		}
	}
	if len(keep) > 12 {
		keep = keep[:12]
	}
	return strings.Join(keep, "\n\n")
}

func runC10(c c10Case, ev *Ev) (err error) {
	r, err := newRig(RigOpts{Mut: func(conf *pfcpiface.Conf) {
		conf.ReadTimeout = 1
		if c.HB {
			conf.EnableHBTimer = true
			conf.HeartBeatInterval = "40ms"
			conf.RespTimeout = "30ms"
			conf.MaxReqRetries = 1
		}
	}})
	if err != nil {
		return fmt.Errorf("INFRA: %v", err)
	}
	run, err := r.newRunner(len(c.Assocs) + 1)
	if err != nil {
		return fmt.Errorf("INFRA: %v", err)
	}
	defer run.Close()
	defer func() {
		// With heartbeats on (40 ms interval, 30 ms response timeout, one retry) a peer that answers is given up
		// only if two answers in a row arrive late. The harness answers at once, but on a busy machine its answer
		// can be late; the agent then retransmits the request, which the peer sees as a repeated sequence number.
		// A verdict reached although a healthy peer saw such a retransmission says nothing about the agent.
		if err != nil && c.HB && !strings.HasPrefix(err.Error(), "INFRA:") {
			for i, a := range c.Assocs {
				if a.Trigger == "hbfail" || i >= len(run.Peers) {
					continue
				}
				seen := map[uint32]bool{}
				for _, q := range run.Peers[i].P.HBSeen() {
					if seen[q.Seq] {
						err = fmt.Errorf("DISCARD: heartbeat answer of a healthy peer was late (the agent retransmitted its request); the verdict would have been: %v", err)
						return
					}
					seen[q.Seq] = true
				}
			}
		}
	}()
	sessOf := map[int][]int{}
	idx := 0
	for i, a := range c.Assocs {
		if o := run.Exec(opAssoc(i, uint32(10+i))); !o.Accepted {
			return fmt.Errorf("INFRA: association %d not accepted", i)
		}
		for k := 0; k < a.Sess; k++ {
			op := c05Sess(idx, false, false, "")
			op.Peer = i
			if o := run.Exec(op); !o.Accepted {
				return fmt.Errorf("INFRA: establishment rejected (cause %d)", o.Cause)
			}
			sessOf[i] = append(sessOf[i], idx)
			idx++
		}
	}
	if c.DelayMs > 0 {
		d := time.Duration(c.DelayMs) * time.Millisecond
		r.B.Inject(func(b *rig.Bessd) { b.Delay = func(string, string) time.Duration { return d } })
	}
	// the request that is to be in flight when the association is torn down
	sendInFlight := func(i int, a c10Assoc) {
		p := run.Peers[i].P
		switch a.InFlight {
		case "mod":
			s := run.Sess[sessOf[i][0]]
			_ = p.Send(model.Modification(7001, s.UPSEID, "172.31.0.1", model.Op{UpdFARs: []model.FAR{{ID: 2, Action: model.ActDROP, HasFwd: true}}}))
		case "del":
			s := run.Sess[sessOf[i][0]]
			_ = p.Send(model.Deletion(7001, s.UPSEID))
		case "est":
			op := c05Sess(200+i, false, false, "")
			_ = p.Send(model.Establishment(7001, run.Peers[i].NodeID, op.CPSEID, run.Peers[i].IP, op))
		}
	}
	// keep-alives: every association must hear from its peer more often than read_timeout
	T := time.Now().Add(1100 * time.Millisecond)
	stopAt := T.Add(time.Duration(c.StopJit) * time.Millisecond)
	var wg sync.WaitGroup
	stopKA := make(chan struct{})
	for i, a := range c.Assocs {
		i, a := i, a
		p := run.Peers[i].P
		at := T.Add(time.Duration(a.JitterMs) * time.Millisecond)
		wg.Add(1)
		go func() {
			defer wg.Done()
			lastKA := time.Time{}
			switch a.Trigger {
			case "silence":
				lastKA = at.Add(-1000 * time.Millisecond) // the read timeout then fires at about `at`
			case "hbfail":
				lastKA = at.Add(-100 * time.Millisecond)
			}
			seq := uint32(1000)
			fired := false
			sentRe := false
			sentIF := a.InFlight == ""
			lead := time.Duration(a.LeadMs) * time.Millisecond
			var verdictAt time.Time // hbfail: when the agent is expected to give the peer up
			var lastSent time.Time
			for {
				select {
				case <-stopKA:
					return
				default:
				}
				now := time.Now()
				if a.Trigger == "vanish" && !fired && now.After(lastKA) {
					// one last request, and the socket is gone before the answer arrives
					fired = true
					p.Keepalive(0x9fffff)
					p.Vanish()
				}
				if a.Trigger == "hbfail" && !fired && now.After(lastKA) {
					p.SetOnHB(func(int, uint32) (bool, time.Duration) { return false, 0 })
					fired = true
				}
				if a.Trigger == "hbfail" && fired && verdictAt.IsZero() {
					// the first heartbeat that goes unanswered is retransmitted once after resp_timeout (30 ms)
					// and given up after another: the teardown starts 60 ms after its first transmission
					for _, q := range p.HBSeen() {
						if q.TS.After(lastKA) {
							verdictAt = q.TS.Add(60 * time.Millisecond)
							break
						}
					}
				}
				if a.Reassoc && !sentRe && !verdictAt.IsZero() {
					sentRe = true
					_ = p.Send(model.AssocSetupTS(0x7c00+uint32(i), run.Peers[i].NodeID, 0))
				}
				if !sentIF {
					var aim time.Time
					switch {
					case a.Trigger == "hbfail":
						aim = verdictAt
					case a.Trigger == "none" && c.Stop:
						aim = stopAt
					case a.Trigger == "silence":
						aim = lastKA.Add(lead) // the last datagram the peer sends (the read timeout runs from it)
					}
					if !aim.IsZero() && !now.Before(aim.Add(-lead)) {
						sentIF = true
						sendInFlight(i, a)
					}
				}
				if a.Trigger == "release" && !fired && !now.Before(at) {
					fired = true
					if !sentIF {
						sentIF = true
						sendInFlight(i, a)
					}
					_ = p.Send(model.AssocRelease(7000, run.Peers[i].NodeID))
					if c.Release2 {
						_ = p.Send(model.AssocRelease(7002, run.Peers[i].NodeID))
					}
					return
				}
				silent := (a.Trigger == "silence" || a.Trigger == "hbfail" || a.Trigger == "vanish") && now.After(lastKA)
				if !silent && now.Sub(lastSent) >= 15*time.Millisecond {
					seq++
					lastSent = now
					p.Keepalive(0x900000 + seq)
				}
				time.Sleep(2 * time.Millisecond)
			}
		}()
	}
	stopped := false
	stopOK := true
	if c.Stop {
		churnDone := make(chan struct{})
		var cwg sync.WaitGroup
		for k := 0; k < c.Churn; k++ {
			k := k
			cwg.Add(1)
			go func() {
				defer cwg.Done()
				time.Sleep(time.Until(stopAt.Add(-4 * time.Millisecond)))
				ra, err := net.ResolveUDPAddr("udp4", r.A.PFCPAddr())
				if err != nil {
					return
				}
				msg, _ := model.AssocSetupTS(0x7700, fmt.Sprintf("172.31.9.%d", k+1), 0).Marshal()
				var socks []*net.UDPConn
				defer func() {
					for _, c := range socks {
						c.Close()
					}
				}()
				for n := 0; n < 400; n++ {
					select {
					case <-churnDone:
						return
					default:
					}
					la := &net.UDPAddr{IP: net.IPv4(127, 0, byte(run.PeerBase), byte(200+k))}
					if s, err := net.ListenUDP("udp4", la); err == nil {
						socks = append(socks, s)
						_, _ = s.WriteToUDP(msg, ra)
					}
					if k == 0 {
						time.Sleep(300 * time.Microsecond)
					}
				}
			}()
		}
		if c.Crowd > 0 {
			// the crowd associates within the last 400 ms before Stop() (well inside the read timeout)
			time.Sleep(time.Until(stopAt.Add(-400 * time.Millisecond)))
			for k := 0; k < c.Crowd; k++ {
				cp, err := rig.NewPeer(fmt.Sprintf("127.0.%d.%d:0", run.PeerBase, 60+k%190), r.A.PFCPAddr())
				if err != nil {
					return fmt.Errorf("INFRA: crowd peer: %v", err)
				}
				defer cp.Close()
				_ = cp.Send(model.AssocSetupTS(uint32(0x6600+k), fmt.Sprintf("172.30.%d.%d", k/250, 1+k%250), 0))
				if k%16 == 15 {
					time.Sleep(time.Millisecond)
				}
			}
			ev.Label("crowd")
		}
		time.Sleep(time.Until(stopAt))
		stopOK = r.A.StopWithin(15 * time.Second)
		stopped = true
		close(churnDone)
		cwg.Wait()
	}
	time.Sleep(time.Until(T.Add(450 * time.Millisecond)))
	close(stopKA)
	wg.Wait()
	if stopped && !stopOK {
		return fmt.Errorf("Stop() did not return within 15 s with %d association(s) (and a crowd of %d more)\n%s", len(c.Assocs), c.Crowd, dumpGoroutines())
	}
	// Removal is asserted as an outcome, not against a clock: on a busy machine a read timeout or a heartbeat verdict
	// can come hundreds of milliseconds late. Wait (bounded) until nothing of an ended association is installed;
	// what is still there after the bound is reported below.
	{
		surv := map[uint64]bool{}
		for i, a := range c.Assocs {
			if a.Trigger == "none" && !stopped {
				for _, si := range sessOf[i] {
					surv[run.Sess[si].UPSEID] = true
				}
			}
		}
		for deadline := time.Now().Add(10 * time.Second); time.Now().Before(deadline); time.Sleep(20 * time.Millisecond) {
			snap := r.B.Snap()
			left := false
			for _, e := range snap.FAR {
				left = left || !surv[e.Fseid]
			}
			for _, e := range snap.PDR {
				left = left || !surv[e.Fseid()]
			}
			if !left {
				break
			}
		}
	}
	r.B.WaitQuiet(3 * time.Second)
	// drain what the peers received meanwhile
	for _, p := range run.Peers {
		p.P.Drain()
	}
	// exactly-once deletion per ended association
	cmds := r.B.LogSince(0)
	delCount := map[string]int{}
	for _, cm := range cmds {
		if cm.Module == "farLookup" && cm.Cmd == "delete" {
			delCount[cm.Key]++
		}
	}
	snap := r.B.Snap()
	installed := map[uint64]bool{}
	for _, e := range snap.FAR {
		installed[e.Fseid] = true
	}
	// nothing may stay behind for an ended association - also not the session of an establishment that was
	// in flight when the teardown began - and nothing is deleted twice
	keep := map[uint64]bool{}
	for i, a := range c.Assocs {
		if a.Trigger == "none" && !stopped {
			for _, si := range sessOf[i] {
				keep[run.Sess[si].UPSEID] = true
			}
		}
	}
	for _, e := range snap.FAR {
		if !keep[e.Fseid] {
			return fmt.Errorf("after every trigger fired the datapath still holds a FAR entry of F-SEID %#x, which belongs to no session of a surviving association (case %+v)", e.Fseid, c)
		}
	}
	for _, e := range snap.PDR {
		if !keep[e.Fseid()] {
			return fmt.Errorf("after every trigger fired the datapath still holds a PDR entry of F-SEID %#x, which belongs to no session of a surviving association", e.Fseid())
		}
	}
	for _, cm := range cmds {
		if cm.Cmd == "delete" && cm.Err != "" && cm.Err != "injected" {
			return fmt.Errorf("a delete command for %s %s was answered %q: the entry was deleted twice (or never installed)", cm.Module, cm.Key, cm.Err)
		}
	}
	nTrig := 0
	for i, a := range c.Assocs {
		ended := a.Trigger != "none" || stopped
		if a.Trigger != "none" {
			nTrig++
		}
		for _, si := range sessOf[i] {
			s := run.Sess[si]
			key := fmt.Sprint(uint64(2), s.UPSEID)
			switch {
			case ended && installed[s.UPSEID]:
				diag := ""
				for _, cm := range cmds {
					if strings.Contains(cm.Key, fmt.Sprint(s.UPSEID)) {
						diag += fmt.Sprintf("\n  #%d %s %s %s err=%q", cm.Seq, cm.Module, cm.Cmd, cm.Key, cm.Err)
					}
				}
				return fmt.Errorf("association %d ended by %s (stop=%v) but session %d (F-SEID %#x) is still installed in the datapath; commands naming it:%s", i, a.Trigger, stopped, si, s.UPSEID, diag)
			case ended && delCount[key] != 1:
				return fmt.Errorf("association %d ended by %s (stop=%v): the rules of session %d were deleted %d times, want exactly once", i, a.Trigger, stopped, si, delCount[key])
			case !ended && !installed[s.UPSEID]:
				return fmt.Errorf("association %d was not ended but its session %d is no longer installed (another association's end affected it)", i, si)
			case !ended && delCount[key] != 0:
				return fmt.Errorf("association %d was not ended but delete commands were sent for its session %d", i, si)
			}
		}
	}
	if !stopped {
		for i, a := range c.Assocs {
			p := run.Peers[i]
			if a.Trigger == "none" {
				if len(sessOf[i]) > 0 {
					o := run.Exec(model.Op{Kind: "mod", Peer: i, Seq: 8000, Sess: sessOf[i][0], UpdFARs: []model.FAR{{ID: 2, Action: model.ActDROP, HasFwd: true}}})
					if !o.Accepted {
						return fmt.Errorf("association %d was not ended but a modification of its session is no longer accepted (cause %d, noresp %v)", i, o.Cause, o.NoResp)
					}
				}
				continue
			}
			// the association is forgotten: the same peer (same address and port) can associate afresh
			if a.Trigger == "vanish" {
				if err := p.P.Reappear(); err != nil {
					return fmt.Errorf("INFRA: peer cannot bind its old address again: %v", err)
				}
			}
			p.P.SetOnHB(nil)
			pr := p.P.Probe(0x42, 3*time.Second)
			if !pr.Alive {
				return fmt.Errorf("after association %d ended by %s the agent does not answer its peer any more (connection never forgotten)", i, a.Trigger)
			}
			o := run.Exec(opAssoc(i, 8100))
			if !o.Accepted {
				return fmt.Errorf("after association %d ended by %s a fresh Association Setup from the same address is not accepted (cause %d, noresp %v)", i, a.Trigger, o.Cause, o.NoResp)
			}
			// and its old sessions are unknown
			for _, si := range sessOf[i] {
				od := run.Exec(model.Op{Kind: "del", Peer: i, Seq: 8200, Sess: si, Addr: "foreign"})
				if od.Accepted {
					return fmt.Errorf("session %d of ended association %d is still known", si, i)
				}
			}
		}
	}
	ev.Label(fmt.Sprintf("stop=%v/assocs=%d/triggers=%d", c.Stop, len(c.Assocs), nTrig))
	if c.Churn > 0 {
		ev.Label("stop/new-peers-arriving")
	}
	for _, a := range c.Assocs {
		if a.Reassoc {
			ev.Label("hbfail/re-association-into-the-outstanding-heartbeat")
			break
		}
	}
	ev.Case(c, nTrig >= 2 || (c.Stop && len(c.Assocs) >= 1), len(c.Assocs))
	return nil
}

func TestC10(t *testing.T) {
	if os.Getenv("VERIF_C10_PLAIN") == "" {
		_ = 0
	}
	ev := newEv("C10")
	ev.Rule = "one fresh agent per case (read_timeout 1 s, optionally heartbeats 40 ms / resp_timeout 30 ms / 1 retry) with 0-4 associations of 0-3 sessions; every association gets a trigger {none, Association Release (optionally sent twice), silence past the read timeout, the peer's socket closing right after a request so that the agent's answer is refused, unanswered heartbeats} aimed at one instant with 0-30 ms jitter, optionally with a session request in flight, and optionally Stop() at that instant, optionally while one or two senders keep introducing new peers (a first datagram from a new socket each), optionally with a crowd of 40-180 further associations set up shortly before; run under the race detector; non-trivial = >= 2 triggers, or Stop() with >= 1 live association; distinct by case"
	ev.Assume = []string{"the harness does not own the Go scheduler: coincidences are aimed at with generated jitter and many repetitions, windows narrower than the wake-up jitter can be missed",
		"Stop() must return within 15 s"}
	runProp(t, ev, "teardown", true, genC10, runC10)
}

func init() {
	registerFns = append(registerFns, func() { registerReplay("C10", "teardown", runC10) })
}
