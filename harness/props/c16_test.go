package props

import (
	"bytes"
	"fmt"
	"go/format"
	"net/http"
	"os"
	"os/exec"
	"path/filepath"
	"strings"
	"testing"

	//nolint:staticcheck
	"github.com/golang/protobuf/proto"
	"github.com/omec-project/upf-epc/pfcpiface"
	p4cfg "github.com/p4lang/p4runtime/go/p4/config/v1"
	"pgregory.net/rapid"

	"verif/harness/model"
)

// ---------- C16: every P4Runtime write is valid for the shipped pipeline ----------

type c16Case struct {
	Slice     uint8           `json:"slice"`
	DefaultTC uint8           `json:"tc"`
	QFIToTC   map[uint8]uint8 `json:"qfitc,omitempty"`
	Ops       []model.Op      `json:"ops"`
	REST      bool            `json:"rest,omitempty"`
	// AccessCIDR / UEPool: the configured N3 address and UE pool as an operator may write them - with a prefix shorter
	// than /32 and host bits set ("" = the canonical defaults); both become LPM keys of the interfaces table
	AccessCIDR string `json:"access,omitempty"`
	UEPool     string `json:"uepool,omitempty"`
}

func genAddr(t *rapid.T, label string) string {
	return fmt.Sprintf("%d.%d.%d.%d", rapid.IntRange(1, 223).Draw(t, label+"a"), rapid.IntRange(0, 255).Draw(t, label+"b"), rapid.IntRange(0, 255).Draw(t, label+"c"), rapid.IntRange(0, 255).Draw(t, label+"d"))
}

func genWideSDF(t *rapid.T) string {
	if rapid.IntRange(0, 3).Draw(t, "nosdf") == 0 {
		return ""
	}
	proto := rapid.SampledFrom([]string{"ip", "udp", "tcp", "0", "1", "254", "132"}).Draw(t, "proto")
	remote := rapid.SampledFrom([]string{"any", "", "", ""}).Draw(t, "remote")
	if remote == "" {
		remote = fmt.Sprintf("%s/%d", genAddr(t, "r"), rapid.SampledFrom([]int{0, 1, 8, 16, 24, 31, 32}).Draw(t, "plen"))
	}
	port := ""
	switch rapid.IntRange(0, 3).Draw(t, "pk") {
	case 1:
		port = fmt.Sprintf(" %d", rapid.SampledFrom([]int{1, 80, 65535, 1024}).Draw(t, "p"))
	case 2:
		lo := rapid.IntRange(1, 65535).Draw(t, "lo")
		port = fmt.Sprintf(" %d-%d", lo, rapid.IntRange(lo, 65535).Draw(t, "hi"))
	}
	return fmt.Sprintf("permit out %s from %s%s to assigned", proto, remote, port)
}

func genC16(t *rapid.T) c16Case {
	c := c16Case{Slice: uint8(rapid.IntRange(0, 15).Draw(t, "slice")), DefaultTC: uint8(rapid.IntRange(0, 3).Draw(t, "tc")), REST: rapid.Bool().Draw(t, "rest")}
	if rapid.Bool().Draw(t, "qfimap") {
		c.QFIToTC = map[uint8]uint8{}
		for _, q := range []uint8{0, 9, 63, 5} {
			if rapid.Bool().Draw(t, "q") {
				c.QFIToTC[q] = uint8(rapid.IntRange(0, 3).Draw(t, "qtc"))
			}
		}
	}
	c.AccessCIDR = rapid.SampledFrom([]string{"", "", "198.18.0.1/24", "198.18.0.1/31", "198.18.0.1/8"}).Draw(t, "access")
	c.UEPool = rapid.SampledFrom([]string{"", "", "10.250.0.1/16", "10.250.77.3/17"}).Draw(t, "uepool")
	c.Ops = append(c.Ops, opAssoc(0, 1))
	nSess := rapid.IntRange(1, 3).Draw(t, "nsess")
	precs := rapid.OneOf(rapid.Uint32Range(0, 65535), rapid.SampledFrom([]uint32{0, 1, 2, 255, 256, 65533, 65534, 65535}))
	for si := 0; si < nSess; si++ {
		op := model.Op{Kind: "est", Peer: 0, Seq: uint32(100 + si), Sess: si, CPSEID: uint64(si)}
		ue := fmt.Sprintf("10.250.%d.%d", rapid.IntRange(0, 255).Draw(t, "ue3"), rapid.IntRange(1, 254).Draw(t, "ue4"))
		var ql []uint32
		if rapid.Bool().Draw(t, "q") {
			q := genQER(t, 1, false)
			q.GBRUL, q.GBRDL = 0, 0
			op.QERs = append(op.QERs, q)
			ql = []uint32{1}
			if rapid.Bool().Draw(t, "q2") {
				q2 := genQER(t, 2, false)
				q2.GBRUL, q2.GBRDL = 0, 0
				op.QERs = append(op.QERs, q2)
				ql = []uint32{1, 2}
			}
		}
		dl := model.FAR{ID: 2, Action: model.ActFORW, HasFwd: true, DstIf: model.IfAccess, HasOHC: true,
			TEID: rapid.OneOf(rapid.Uint32(), rapid.SampledFrom([]uint32{1, 0xffffffff, 0x80000000})).Draw(t, "dlteid"), Peer: genAddr(t, "gnb")}
		if rapid.IntRange(0, 3).Draw(t, "buf") == 0 {
			dl = model.FAR{ID: 2, Action: model.ActBUFF | model.ActNOCP, HasFwd: true}
		}
		op.FARs = []model.FAR{{ID: 1, Action: model.ActFORW, HasFwd: true, DstIf: model.IfCore}, dl}
		nPairs := rapid.IntRange(1, 2).Draw(t, "pairs")
		used := map[string]bool{}
		for i := 0; i < nPairs; i++ {
			sdf := genWideSDF(t)
			if used[sdfKey(sdf)] {
				continue
			}
			used[sdfKey(sdf)] = true
			prec := precs.Draw(t, "prec")
			up := model.PDR{ID: uint16(1 + 2*i), Prec: prec, Src: "access", FTEID: true, OHR: true, FAR: 1, QERs: ql, SDF: sdf,
				TEID: rapid.OneOf(rapid.Uint32Range(1, 0xffffffff), rapid.SampledFrom([]uint32{1, 0xffffffff, 0x80000000})).Draw(t, "teid"), N3: "198.18.0.1"}
			dn := model.PDR{ID: uint16(2 + 2*i), Prec: prec, Src: "core", HasUE: true, UEIP: ue, FAR: 2, QERs: ql, SDF: sdf}
			op.PDRs = append(op.PDRs, up, dn)
		}
		op.Note = "any"
		c.Ops = append(c.Ops, op)
		if rapid.Bool().Draw(t, "upd") {
			c.Ops = append(c.Ops, model.Op{Kind: "mod", Peer: 0, Seq: uint32(200 + si), Sess: si, Note: "any",
				UpdFARs: []model.FAR{{ID: 2, Action: model.ActFORW, HasFwd: true, DstIf: model.IfAccess, HasOHC: true, TEID: rapid.Uint32().Draw(t, "nteid"), Peer: genAddr(t, "ngnb")}}})
		}
		if len(op.QERs) > 0 && rapid.Bool().Draw(t, "updq") {
			// Update QER over the full numeric domain: the meter cells and terminations are rewritten
			q := genQER(t, op.QERs[0].ID, false)
			q.GBRUL, q.GBRDL = 0, 0
			c.Ops = append(c.Ops, model.Op{Kind: "mod", Peer: 0, Seq: uint32(230 + si), Sess: si, Note: "any", UpdQERs: []model.QER{q}})
		}
		if rapid.Bool().Draw(t, "updp") {
			// Update PDR: the rule re-stated with another precedence, and a rule moved to another key (refused by
			// the switch or not - every Write must be valid for the pipeline either way)
			pd := op.PDRs[rapid.IntRange(0, len(op.PDRs)-1).Draw(t, "updpi")]
			pd.Prec = precs.Draw(t, "nprec")
			if rapid.Bool().Draw(t, "move") {
				if pd.Src == "access" {
					pd.TEID = rapid.Uint32Range(1, 0xffffffff).Draw(t, "mteid")
				} else {
					pd.UEIP = fmt.Sprintf("10.250.%d.%d", rapid.IntRange(0, 255).Draw(t, "mue3"), rapid.IntRange(1, 254).Draw(t, "mue4"))
				}
			}
			c.Ops = append(c.Ops, model.Op{Kind: "mod", Peer: 0, Seq: uint32(260 + si), Sess: si, Note: "any", UpdPDRs: []model.PDR{pd}})
		}
		if rapid.Bool().Draw(t, "del") {
			c.Ops = append(c.Ops, model.Op{Kind: "del", Peer: 0, Seq: uint32(300 + si), Sess: si, Note: "any"})
		}
	}
	return c
}

func runC16(c c16Case, ev *Ev) error {
	r, err := newRig(RigOpts{UP4: true, Mut: func(conf *pfcpiface.Conf) {
		conf.P4rtcIface.SliceID = c.Slice
		conf.P4rtcIface.DefaultTC = c.DefaultTC
		conf.P4rtcIface.QFIToTC = c.QFIToTC
		if c.AccessCIDR != "" {
			conf.P4rtcIface.AccessIP = c.AccessCIDR
		}
		if c.UEPool != "" {
			conf.CPIface.UEIPPool = c.UEPool
		}
	}})
	if err != nil {
		return fmt.Errorf("INFRA: %v", err)
	}
	if bad := r.P4.InvalidSince(0); len(bad) != 0 {
		return fmt.Errorf("start-up writes violate the P4Info: %v", bad)
	}
	run, err := r.newRunner(1)
	if err != nil {
		return fmt.Errorf("INFRA: %v", err)
	}
	defer run.Close()
	nontriv := false
	for i, op := range c.Ops {
		mark := len(r.P4.InvalidSince(0))
		from := r.P4.LogLen()
		o := run.Exec(op)
		if o.NoResp || !o.Alive {
			return fmt.Errorf("op %d (%s): no response", i, op.Kind)
		}
		if bad := r.P4.InvalidSince(mark); len(bad) != 0 {
			return fmt.Errorf("op %d (%s, accepted=%v): write(s) that do not conform to the P4Info: %s\n%s", i, op.Kind, o.Accepted, strings.Join(bad, "; "), p4Diag(r, from))
		}
		for _, w := range r.P4.LogSince(from) {
			for _, k := range w.Kinds {
				if strings.Contains(k, "applications") {
					nontriv = true
				}
			}
		}
		for _, p := range op.PDRs {
			if p.Prec == 0 || p.Prec >= 65534 {
				nontriv = true
			}
		}
		ev.Label(fmt.Sprintf("%s/%v", op.Kind, o.Accepted))
	}
	if c.REST {
		mark := len(r.P4.InvalidSince(0))
		body := `{"sliceName":"s","sliceQos":{"uplinkMbr":100,"downlinkMbr":200,"bitrateUnit":"Mbps","uplinkBurstSize":1000,"downlinkBurstSize":2000}}`
		resp, err := http.Post("http://"+r.A.HTTP+"/v1/config/network-slices", "application/json", strings.NewReader(body))
		if err == nil {
			resp.Body.Close()
		}
		if bad := r.P4.InvalidSince(mark); len(bad) != 0 {
			return fmt.Errorf("slice configuration (slice %d, TC %d): write(s) that do not conform to the P4Info: %s", c.Slice, c.DefaultTC, strings.Join(bad, "; "))
		}
	}
	ev.Case(c, nontriv, len(c.Ops))
	return nil
}

func TestC16(t *testing.T) {
	ev := newEv("C16")
	ev.Rule = "fresh UP4 agent per case with slice 0-15, default TC 0-3 and a drawn QFI->TC map; sessions over the full numeric domain (precedence 0..65535 with boundaries, any addresses, TEIDs, ports and ranges, protocols, QFI 0-63) plus Update FAR, Update QER, Update PDR (re-stated with another precedence, or moved to another key), deletion and a slice configuration over REST; every Write at the harness P4Runtime server is validated against the served P4Info (table, field membership and kind, bit widths, allowed action with exactly its parameters, non-zero priority on ternary/range tables, meter/counter index below size); non-trivial = a write to a table with a non-exact field, or a boundary precedence; distinct by case"
	runProp(t, ev, "writes", true, genC16, runC16)
}

// ---- constants and generator determinism ----

func genBin() string { return os.Getenv("VERIF_P4GEN_BIN") }

func runGen(p4info string) (string, error) {
	out := filepath.Join(os.TempDir(), fmt.Sprintf("verif-c16-%d.go", os.Getpid()))
	defer os.Remove(out)
	cmd := exec.Command(genBin(), "-p4info", p4info, "-output", out)
	var stderr bytes.Buffer
	cmd.Stdout, cmd.Stderr = &stderr, &stderr
	if err := cmd.Run(); err != nil {
		return "", fmt.Errorf("generator failed: %v: %s", err, stderr.String())
	}
	b, err := os.ReadFile(out)
	return string(b), err
}

func TestC16Constants(t *testing.T) {
	ev := newEv("C16")
	defer ev.write()
	if genBin() == "" {
		t.Skip("INFRA: VERIF_P4GEN_BIN not set")
	}
	repo := envOr("VERIF_REPO", "/repo")
	a, err := runGen(filepath.Join(repo, "conf/p4/bin/p4info.txt"))
	if err != nil {
		failNow(t, ev, "constants", map[string]string{"step": "generate"}, err)
	}
	b, err := runGen(filepath.Join(repo, "conf/p4/bin/p4info.txt"))
	if err != nil || a != b {
		failNow(t, ev, "constants", map[string]string{"step": "determinism"}, fmt.Errorf("two runs of the generator on the shipped P4Info differ (%v)", err))
	}
	fa, err := format.Source([]byte(a))
	if err != nil {
		failNow(t, ev, "constants", map[string]string{"step": "format"}, fmt.Errorf("generated constants do not parse as Go: %v", err))
	}
	committed, err := os.ReadFile(filepath.Join(repo, "internal/p4constants/p4constants.go"))
	if err != nil {
		t.Fatalf("INFRA: %v", err)
	}
	// the committed file carries one extra licence comment line
	norm := func(s string) string {
		var out []string
		for _, l := range strings.Split(s, "\n") {
			if strings.HasPrefix(l, "// Copyright") {
				continue
			}
			out = append(out, l)
		}
		return strings.Join(out, "\n")
	}
	if norm(string(fa)) != norm(string(committed)) {
		la, lb := strings.Split(norm(string(fa)), "\n"), strings.Split(norm(string(committed)), "\n")
		first := ""
		for i := 0; i < len(la) && i < len(lb); i++ {
			if la[i] != lb[i] {
				first = fmt.Sprintf("line %d: generated %q, committed %q", i+1, la[i], lb[i])
				break
			}
		}
		failNow(t, ev, "constants", map[string]string{"step": "diff"}, fmt.Errorf("internal/p4constants/p4constants.go differs from the constants derived from the shipped P4Info: %s (lengths %d vs %d lines)", first, len(la), len(lb)))
	}
	ev.Evals += 2
	ev.NTCount += 2
	ev.Sample(map[string]any{"shipped_p4info": "conf/p4/bin/p4info.txt", "generated_lines": len(strings.Split(a, "\n"))})
	ev.Rule = "the built cmd/p4info_code_gen regenerates the constants from the shipped P4Info twice (identical), and the gofmt-ed result is compared byte-for-byte with internal/p4constants/p4constants.go"
}

type c16Gen struct {
	Text string `json:"p4info"`
}

func genP4Info(t *rapid.T) c16Gen {
	info := &p4cfg.P4Info{PkgInfo: &p4cfg.PkgInfo{Arch: "v1model"}}
	names := []string{"PreQosPipe.t_a", "PreQosPipe.t_b", "PostQosPipe.t_a", "x.y.z", "t", "Acl.acls", "pre_qos_pipe.T_A"}
	nT := rapid.IntRange(0, 4).Draw(t, "nt")
	var actIDs []uint32
	nA := rapid.IntRange(0, 4).Draw(t, "na")
	for i := 0; i < nA; i++ {
		id := uint32(20000000 + rapid.IntRange(1, 1000).Draw(t, "aid"))
		a := &p4cfg.Action{Preamble: &p4cfg.Preamble{Id: id, Name: rapid.SampledFrom(names).Draw(t, "aname"), Alias: "a"}}
		for p := 0; p < rapid.IntRange(0, 3).Draw(t, "np"); p++ {
			a.Params = append(a.Params, &p4cfg.Action_Param{Id: uint32(p + 1), Name: rapid.SampledFrom([]string{"port", "tc", "teid", "ctr_idx"}).Draw(t, "pname"), Bitwidth: int32(rapid.SampledFrom([]int{1, 2, 8, 9, 32, 48}).Draw(t, "pw"))})
		}
		info.Actions = append(info.Actions, a)
		actIDs = append(actIDs, id)
	}
	for i := 0; i < nT; i++ {
		tb := &p4cfg.Table{Preamble: &p4cfg.Preamble{Id: uint32(40000000 + rapid.IntRange(1, 1000).Draw(t, "tid")), Name: rapid.SampledFrom(names).Draw(t, "tname"), Alias: "t"}, Size: 1024}
		for f := 0; f < rapid.IntRange(0, 3).Draw(t, "nf"); f++ {
			mf := &p4cfg.MatchField{Id: uint32(f + 1), Name: rapid.SampledFrom([]string{"ipv4_dst", "teid", "slice_id", "app_id"}).Draw(t, "fname"), Bitwidth: int32(rapid.SampledFrom([]int{4, 8, 32}).Draw(t, "fw")),
				Match: &p4cfg.MatchField_MatchType_{MatchType: p4cfg.MatchField_MatchType(rapid.SampledFrom([]int{2, 3, 4, 5}).Draw(t, "mt"))}}
			tb.MatchFields = append(tb.MatchFields, mf)
		}
		for _, id := range actIDs {
			if rapid.Bool().Draw(t, "ref") {
				tb.ActionRefs = append(tb.ActionRefs, &p4cfg.ActionRef{Id: id})
			}
		}
		info.Tables = append(info.Tables, tb)
	}
	for i := 0; i < rapid.IntRange(0, 2).Draw(t, "nm"); i++ {
		info.Meters = append(info.Meters, &p4cfg.Meter{Preamble: &p4cfg.Preamble{Id: uint32(30000000 + i), Name: rapid.SampledFrom(names).Draw(t, "mname")}, Size: int64(rapid.IntRange(1, 4096).Draw(t, "msize"))})
	}
	for i := 0; i < rapid.IntRange(0, 2).Draw(t, "nc"); i++ {
		info.Counters = append(info.Counters, &p4cfg.Counter{Preamble: &p4cfg.Preamble{Id: uint32(31000000 + i), Name: rapid.SampledFrom(names).Draw(t, "cname")}, Size: int64(rapid.IntRange(1, 4096).Draw(t, "csize"))})
	}
	if rapid.Bool().Draw(t, "enum") {
		info.TypeInfo = &p4cfg.P4TypeInfo{SerializableEnums: map[string]*p4cfg.P4SerializableEnumTypeSpec{}}
		for _, en := range []string{"TrafficClass", "Direction", "Slice"} {
			if rapid.Bool().Draw(t, "e") {
				spec := &p4cfg.P4SerializableEnumTypeSpec{UnderlyingType: &p4cfg.P4BitTypeSpec{Bitwidth: 2}}
				for k, m := range []string{"BEST_EFFORT", "CONTROL", "REAL_TIME", "ELASTIC"} {
					if rapid.Bool().Draw(t, "m") {
						spec.Members = append(spec.Members, &p4cfg.P4SerializableEnumTypeSpec_Member{Name: m, Value: []byte{byte(k)}})
					}
				}
				info.TypeInfo.SerializableEnums[en] = spec
			}
		}
	}
	return c16Gen{Text: proto.MarshalTextString(info)}
}

func runC16Gen(c c16Gen, ev *Ev) error {
	if genBin() == "" {
		return fmt.Errorf("INFRA: VERIF_P4GEN_BIN not set")
	}
	f := filepath.Join(os.TempDir(), fmt.Sprintf("verif-c16-info-%d.txt", os.Getpid()))
	if err := os.WriteFile(f, []byte(c.Text), 0o600); err != nil {
		return fmt.Errorf("INFRA: %v", err)
	}
	defer os.Remove(f)
	a, ea := runGen(f)
	b, eb := runGen(f)
	if (ea == nil) != (eb == nil) {
		return fmt.Errorf("generator succeeded in one run and failed in the other on the same P4Info: %v / %v", ea, eb)
	}
	if a != b {
		return fmt.Errorf("two runs of the generator on the same P4Info produced different constants")
	}
	ev.Case(c, ea == nil && strings.Count(c.Text, "tables {") >= 2, len(c.Text))
	return nil
}

func TestC16Gen(t *testing.T) {
	ev := newEv("C16")
	ev.Rule = "generated P4Info documents (tables with match fields, actions with parameters, meters, counters, serializable enums, clashing names) are fed twice to the built generator; both runs must agree; non-trivial = accepted document with >= 2 tables"
	runProp(t, ev, "gen", false, genP4Info, runC16Gen)
}

func init() {
	registerFns = append(registerFns, func() {
		registerReplay("C16", "writes", runC16)
		registerReplay("C16", "gen", runC16Gen)
		registerReplay("C16", "constants", func(m map[string]string, ev *Ev) error { return nil })
	})
}
