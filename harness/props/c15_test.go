//go:build verif

package props

import (
	"fmt"
	"testing"

	"github.com/omec-project/upf-epc/pfcpiface"
	"pgregory.net/rapid"

	"verif/harness/model"
	"verif/harness/rig"
	"verif/harness/sim"
)

// ---------- C15: P4 datapath IDs stay exclusive and in their own pool under write failures ----------

type c15Case struct {
	Target string         `json:"target"` // est | mod | del
	K      int            `json:"k"`      // failing Write ordinal inside the target request (0 = fault-free)
	Code   string         `json:"code"`
	Shared bool           `json:"shared"` // target shares gNB peer and application filter with earlier sessions
	Multi  map[int]string `json:"multi,omitempty"`
	After  int            `json:"after"` // sessions established afterwards
	// DelOther deletes the other session that shares gNB peer and filter right after the target request
	DelOther bool `json:"delother,omitempty"`
	// Asym: the downlink PDR of session 0 carries an application filter of its own, which nothing else uses
	Asym bool `json:"asym,omitempty"`
	// Solo: session 0 is the only user of its gNB peer, so that a handover away from it ends with the removal
	// of that peer - one more write of the modification, and one that may fail like any other
	Solo bool `json:"solo,omitempty"`
}

func c15Session(idx int, peer string, sdf string, twoQ bool) model.Op {
	ue := fmt.Sprintf("10.250.9.%d", idx+1)
	op := model.Op{Kind: "est", Peer: 0, Seq: uint32(100 + idx), Sess: idx, CPSEID: uint64(50 + idx), Note: "any"}
	ql := []uint32{1}
	op.QERs = []model.QER{{ID: 1, QFI: 9, MBRUL: 1000, MBRDL: 1000}}
	if twoQ {
		ql = []uint32{1, 2}
		op.QERs = append(op.QERs, model.QER{ID: 2, QFI: 9, MBRUL: 50000, MBRDL: 50000})
	}
	op.PDRs = []model.PDR{
		{ID: 1, Prec: 20, Src: "access", FTEID: true, TEID: uint32(0x100 + idx), N3: "198.18.0.1", OHR: true, FAR: 1, QERs: ql, SDF: sdf},
		{ID: 2, Prec: 20, Src: "core", HasUE: true, UEIP: ue, FAR: 2, QERs: ql, SDF: sdf},
	}
	op.FARs = []model.FAR{{ID: 1, Action: model.ActFORW, HasFwd: true, DstIf: model.IfCore},
		{ID: 2, Action: model.ActFORW, HasFwd: true, DstIf: model.IfAccess, HasOHC: true, TEID: uint32(900 + idx), Peer: peer}}
	return op
}

// c15Exclusive checks, over the switch state, that no agent-managed identifier is referenced by two
// live owners and that every reference resolves to the object its owner asked for.
// c15AltPeer: per session index, the gNB that a rejected Update FAR named. When the writes of a rejected
// modification were applied before the one that failed, the session's entries legitimately carry the new
// tunnel although the session keeps its old rule; exclusivity is then judged against either.
var c15AltPeer = map[int]string{}

func c15Exclusive(run *sim.Runner, d *rig.P4d, free map[string]map[uint64]bool) error {
	snap := d.Snap()
	// (hook) an identifier that an entry of a live session references must not sit in its free pool, from
	// where the next allocation would hand it to somebody else
	notFree := func(pool string, id uint64, owner string) error {
		if free != nil && free[pool][id] {
			return fmt.Errorf("%s identifier %d is referenced by live %s but sits in the agent's free pool (it can be handed to another session)", pool, id, owner)
		}
		return nil
	}
	// identifiers whose object was installed at some point: if a live session references one that is
	// missing now, it was removed (and its id released) while in use
	everPeer, everApp := map[uint64]bool{}, map[uint64]bool{}
	for _, w := range d.LogSince(0) {
		for i, u := range w.Updates {
			if w.Failed != "" || (i < len(w.Errors) && w.Errors[i] != 0) || u.Type.String() != "INSERT" {
				continue
			}
			if te := u.Entity.GetTableEntry(); te != nil {
				if e := d.Decode(te); e != nil {
					switch e.Table {
					case "tunnel_peers":
						everPeer[e.Match["tunnel_peer_id"].Value] = true
					case "applications":
						everApp[e.Params["app_id"]] = true
					}
				}
			}
		}
	}
	live := run.LiveSessions()
	byUE := map[uint32]*sim.SessState{}
	for _, s := range live {
		for _, p := range s.PDRs {
			if p.Src == "core" && p.UEIP != "" {
				byUE[model.IP2U(p.UEIP)] = s
			}
		}
	}
	appEntry := map[uint64]rig.PEntry{}
	for _, e := range snap.Tables["applications"] {
		id := e.Params["app_id"]
		if _, dup := appEntry[id]; dup {
			return fmt.Errorf("application id %d is held by two applications entries", id)
		}
		appEntry[id] = e
	}
	peerEntry := map[uint64]rig.PEntry{}
	for _, e := range snap.Tables["tunnel_peers"] {
		peerEntry[e.Match["tunnel_peer_id"].Value] = e
	}
	ctrOwner := map[uint64]string{}
	appCellOwner := map[uint64]int{}
	for _, tbl := range []string{"terminations_uplink", "terminations_downlink"} {
		for _, e := range snap.Tables[tbl] {
			s := byUE[uint32(e.Match["ue_address"].Value)]
			if s == nil {
				continue // left behind by a request that failed: not a live owner
			}
			owner := fmt.Sprintf("session %d %s app %d", s.Idx, tbl, e.Match["app_id"].Value)
			ctr := e.Params["ctr_idx"]
			if o, dup := ctrOwner[ctr]; dup && o != owner {
				return fmt.Errorf("counter cell %d is referenced by two live owners: %s and %s", ctr, o, owner)
			}
			ctrOwner[ctr] = owner
			if err := notFree("ctr", ctr, owner); err != nil {
				return err
			}
			if cell, ok := e.Params["app_meter_idx"]; ok && cell != 0 {
				if err := notFree("appmeter", cell, owner); err != nil {
					return err
				}
				if o, dup := appCellOwner[cell]; dup && o != s.Idx {
					return fmt.Errorf("application meter cell %d is referenced by live sessions %d and %d", cell, o, s.Idx)
				}
				appCellOwner[cell] = s.Idx
			}
			// the application id must still denote this owner's filter
			if id := e.Match["app_id"].Value; id != 0 {
				if err := notFree("app", id, owner); err != nil {
					return err
				}
				ae, ok := appEntry[id]
				if !ok {
					if everApp[id] {
						return fmt.Errorf("%s references application id %d whose applications entry was removed while the session is live (id released while in use)", owner, id)
					}
					// the entry was never written because an earlier request failed half-way: a missing
					// object is the (known) roll-back problem of C04/C05, not an exclusivity violation
					continue
				}
				want := ""
				for _, p := range s.PDRs {
					if p.SDF != "" && (p.Src == "access") == (tbl == "terminations_uplink") {
						want = p.SDF
					}
				}
				if f, err := model.ParseFlow(want); err == nil {
					if m, ok := ae.Match["app_ip_addr"]; ok && uint32(m.Value) != f.From.Net {
						return fmt.Errorf("%s references application id %d, which now denotes %s instead of the filter %q of its owner", owner, id, model.U2IP(uint32(m.Value)), want)
					}
				}
			}
		}
	}
	sessCellOwner := map[uint64]int{}
	for _, tbl := range []string{"sessions_uplink", "sessions_downlink"} {
		for _, e := range snap.Tables[tbl] {
			var s *sim.SessState
			if tbl == "sessions_downlink" {
				s = byUE[uint32(e.Match["ue_address"].Value)]
			} else {
				for _, x := range live {
					for _, p := range x.PDRs {
						if p.Src == "access" && p.TEID == uint32(e.Match["teid"].Value) {
							s = x
						}
					}
				}
			}
			if s == nil {
				continue
			}
			if cell := e.Params["session_meter_idx"]; cell != 0 {
				if err := notFree("sessmeter", cell, fmt.Sprintf("session %d %s", s.Idx, tbl)); err != nil {
					return err
				}
				if o, dup := sessCellOwner[cell]; dup && o != s.Idx {
					return fmt.Errorf("session meter cell %d is referenced by live sessions %d and %d", cell, o, s.Idx)
				}
				sessCellOwner[cell] = s.Idx
			}
			if tbl == "sessions_downlink" && e.Action == "set_session_downlink" {
				id := e.Params["tunnel_peer_id"]
				var far model.FAR
				for _, f := range s.FARs {
					if f.ID == 2 {
						far = f
					}
				}
				if far.HasOHC && far.Action&model.ActFORW != 0 {
					pe, ok := peerEntry[id]
					if ok {
						if err := notFree("tnlpeer", id, fmt.Sprintf("session %d", s.Idx)); err != nil {
							return err
						}
					}
					if !ok {
						if everPeer[id] {
							return fmt.Errorf("session %d references tunnel peer id %d whose tunnel_peers entry was removed while the session is live (id released while in use)", s.Idx, id)
						}
						continue // never written: see above
					}
					if alt := c15AltPeer[s.Idx]; alt != "" && uint32(pe.Params["dst_addr"]) == model.IP2U(alt) {
						continue
					}
					if uint32(pe.Params["dst_addr"]) != model.IP2U(far.Peer) {
						return fmt.Errorf("session %d references tunnel peer id %d, which now carries %s instead of its gNB %s (id handed out while in use)", s.Idx, id, model.U2IP(uint32(pe.Params["dst_addr"])), far.Peer)
					}
				}
			}
		}
	}
	return nil
}

// c15Pools: a pool never holds more free identifiers than it started with, and (hook) no free cell
// of a meter pool is referenced by a live session.
func c15Pools(r *Rig, when string) error {
	p := r.A.Iface.VerifPools()
	for _, k := range []string{"ctr_free", "appmeter_free", "sessmeter_free", "tnlpeer_free", "app_free"} {
		if p[k] > r.Base[k] {
			return fmt.Errorf("%s: pool %s has %d free identifiers, more than the %d it started with (identifiers migrated into it or were released twice)", when, k, p[k], r.Base[k])
		}
	}
	return nil
}

func runC15(c c15Case, ev *Ev) error {
	r, err := newRig(RigOpts{UP4: true, SmallPools: true, Mut: func(conf *pfcpiface.Conf) {}})
	if err != nil {
		return fmt.Errorf("INFRA: %v", err)
	}
	r.Base = r.A.Iface.VerifPools()
	run, err := r.newRunner(1)
	if err != nil {
		return fmt.Errorf("INFRA: %v", err)
	}
	defer run.Close()
	if o := run.Exec(opAssoc(0, 1)); !o.Accepted {
		return fmt.Errorf("INFRA: association rejected")
	}
	peerA, peerB := "198.18.7.1", "198.18.7.2"
	sdfF, sdfG := "permit out udp from 8.8.8.0/24 to assigned", "permit out tcp from 9.9.9.0/24 to assigned"
	// two sessions with application + session QER that share peer A and filter F
	for i := 0; i < 2; i++ {
		op := c15Session(i, peerA, sdfF, true)
		if c.Solo && i == 1 {
			op = c15Session(i, "198.18.7.9", sdfF, true)
		}
		if c.Asym && i == 0 {
			op.PDRs[1].SDF = "permit out udp from 6.6.6.0/24 to assigned"
		}
		if o := run.Exec(op); !o.Accepted {
			return fmt.Errorf("INFRA: set-up establishment %d rejected (cause %d)\n%s", i, o.Cause, p4Diag(r, 0))
		}
	}
	var target model.Op
	switch c.Target {
	case "est":
		if c.Shared {
			target = c15Session(2, peerA, sdfF, true)
		} else {
			target = c15Session(2, peerB, sdfG, true)
		}
	case "mod":
		np := peerB
		if c.Shared {
			np = peerA
		}
		target = model.Op{Kind: "mod", Peer: 0, Seq: 300, Sess: 0, Note: "any",
			UpdFARs: []model.FAR{{ID: 2, Action: model.ActFORW, HasFwd: true, DstIf: model.IfAccess, HasOHC: true, TEID: 7777, Peer: np}}}
	case "modqer":
		// an AMBR / MBR change: the meter cells of both QERs are reprogrammed, then the entries rewritten
		target = model.Op{Kind: "mod", Peer: 0, Seq: 300, Sess: 0, Note: "any",
			UpdQERs: []model.QER{{ID: 1, QFI: 9, MBRUL: 3000, MBRDL: 3000}, {ID: 2, QFI: 9, MBRUL: 70000, MBRDL: 70000}}}
	case "modpdr":
		// Update PDRs that restate both rules of session 0: nothing is acquired, so a failure must not give
		// anything back either (the references on the application filters were taken at establishment)
		restated := c15Session(0, peerA, sdfF, true).PDRs
		if c.Asym {
			restated[1].SDF = "permit out udp from 6.6.6.0/24 to assigned"
		}
		target = model.Op{Kind: "mod", Peer: 0, Seq: 300, Sess: 0, Note: "any", UpdPDRs: restated}
	case "del":
		target = model.Op{Kind: "del", Peer: 0, Seq: 300, Sess: 0, Note: "any"}
	}
	c15AltPeer = map[int]string{}
	plan := map[int]string{}
	if c.K > 0 {
		plan[c.K] = c.Code
	}
	for k, v := range c.Multi {
		plan[k] = v
	}
	r.P4.Arm(plan)
	from := r.P4.LogLen()
	o := run.Exec(target)
	nWrites := r.P4.WriteCount()
	r.P4.Arm(nil)
	if o.NoResp || !o.Alive {
		return fmt.Errorf("target %s with failing write %d (%s): no response", c.Target, c.K, c.Code)
	}
	injected := false
	for _, w := range r.P4.LogSince(from) {
		injected = injected || w.Failed != ""
	}
	if c.Target == "mod" && !o.Accepted {
		c15AltPeer[0] = target.UpdFARs[0].Peer
	}
	if injected && o.Accepted && (c.Target == "est" || c.Target == "mod" || c.Target == "modqer" || c.Target == "modpdr") {
		return fmt.Errorf("%s whose datapath write %d failed with %s was answered with acceptance\n%s", c.Target, c.K, c.Code, p4Diag(r, from))
	}
	if ev != nil {
		ev.Extra["writes_"+c.Target] = nWrites
	}
	if err := c15Exclusive(run, r.P4, r.A.Iface.VerifUP4FreeIDs()); err != nil {
		return fmt.Errorf("after %s with failing write %d (%s): %w\n%s", c.Target, c.K, c.Code, err, p4Diag(r, from))
	}
	if err := c15Pools(r, fmt.Sprintf("after %s with failing write %d (%s)", c.Target, c.K, c.Code)); err != nil {
		return err
	}
	if c.DelOther {
		if od := run.Exec(model.Op{Kind: "del", Peer: 0, Seq: 350, Sess: 1, Note: "any"}); od.NoResp {
			return fmt.Errorf("deletion of the sharing session: no response")
		}
		if err := c15Exclusive(run, r.P4, r.A.Iface.VerifUP4FreeIDs()); err != nil {
			return fmt.Errorf("after %s with failing write %d (%s) and deletion of the session sharing its objects: %w\n%s", c.Target, c.K, c.Code, err, p4Diag(r, from))
		}
	}
	// further sessions that would receive any wrongly recycled identifier
	for i := 0; i < c.After; i++ {
		idx := 10 + i
		peer, sdf := peerB, sdfG
		if i%2 == 1 {
			peer, sdf = fmt.Sprintf("198.18.8.%d", i+1), fmt.Sprintf("permit out udp from 7.7.%d.0/24 to assigned", i)
		}
		oo := run.Exec(c15Session(idx, peer, sdf, i%3 != 2))
		if oo.NoResp {
			return fmt.Errorf("follow-up establishment %d: no response", i)
		}
		if err := c15Exclusive(run, r.P4, r.A.Iface.VerifUP4FreeIDs()); err != nil {
			return fmt.Errorf("after %s with failing write %d (%s), follow-up session %d (accepted=%v): %w", c.Target, c.K, c.Code, i, oo.Accepted, err)
		}
		if err := c15Pools(r, fmt.Sprintf("follow-up session %d after %s/%d/%s", i, c.Target, c.K, c.Code)); err != nil {
			return err
		}
		// a deletion that failed is tried again (fault-free) once another session had the chance to receive
		// what the failed attempt gave away too early: a second release would free it under its new owner
		if i == 0 && c.Target == "del" {
			if s0 := run.Sess[0]; s0 != nil && s0.Live {
				if od := run.Exec(model.Op{Kind: "del", Peer: 0, Seq: 360, Sess: 0, Note: "any"}); od.NoResp {
					return fmt.Errorf("retried deletion: no response")
				}
				if err := c15Exclusive(run, r.P4, r.A.Iface.VerifUP4FreeIDs()); err != nil {
					return fmt.Errorf("after %s with failing write %d (%s), a follow-up session and the retried deletion: %w", c.Target, c.K, c.Code, err)
				}
			}
		}
	}
	if ev != nil {
		ev.Label(fmt.Sprintf("%s/injected=%v/accepted=%v", c.Target, injected, o.Accepted))
		ev.Case(c, injected && c.K > 1, c.After)
	}
	return nil
}

var c15Codes = []string{"UNAVAILABLE", "INVALID_ARGUMENT", "RESOURCE_EXHAUSTED"}

// TestC15Enum enumerates every failing-write position of every target request.
func TestC15Enum(t *testing.T) {
	ev := newEv("C15")
	defer ev.write()
	ev.Rule = "fault enumeration on a fresh UP4 agent whose switch declares 9-cell meters and 16-cell counters: two sessions (application + session QER, shared gNB and filter; in a third of the scenarios the downlink PDR of the first session has an application filter nothing else uses), then the target request {establishment (sharing / not sharing peer and filter), Update FAR modification (same / new peer), Update QER modification (new rates for the application and the session QER), Update PDR modification (both rules restated), deletion} with the k-th Write RPC failing, for every k up to the number of Writes of the fault-free run and each code {gRPC UNAVAILABLE, UNKNOWN+INVALID_ARGUMENT, UNKNOWN+RESOURCE_EXHAUSTED}, then 4 (quick) / 7 (thorough) further sessions; non-trivial = the failing write is not the first of the request"
	ev.Assume = []string{"ALREADY_EXISTS is tolerated by documented design and not injected", "identifier leaks after a failed request are C05's business; C15 asserts exclusivity, no hand-out while in use (also in its precursor form, hook: no identifier referenced by an entry of a live session sits in its free pool), no migration (a pool never exceeds its start-up size) and rejection"}
	codes := c15Codes
	if !thorough() {
		codes = c15Codes[:2]
	}
	n := 0
	for _, target := range []string{"est", "mod", "modqer", "modpdr", "del"} {
		for _, variant := range []struct{ shared, asym, solo bool }{{true, false, false}, {false, false, false}, {true, true, false}, {false, false, true}} {
			shared, asym, solo := variant.shared, variant.asym, variant.solo
			if (target == "del" || target == "modqer" || target == "modpdr") && !shared {
				continue
			}
			if solo && target != "mod" {
				continue
			}
			// fault-free run learns W
			base := c15Case{Target: target, Shared: shared, After: 1, Asym: asym, Solo: solo}
			probe := newEv("C15")
			if err := runC15(base, probe); err != nil {
				failNow(t, ev, "enum", base, err)
			}
			W, _ := probe.Extra["writes_"+target].(int)
			if W == 0 {
				failNow(t, ev, "enum", base, fmt.Errorf("INFRA: fault-free %s issued no Write", target))
			}
			for k := 1; k <= W; k++ {
				for _, code := range codes {
					n++
					if n%nShards != shard {
						continue
					}
					for _, delOther := range []bool{false, true} {
						c := c15Case{Target: target, K: k, Code: code, Shared: shared, After: scale(4, 7), DelOther: delOther, Asym: asym, Solo: solo}
						if err := runC15(c, ev); err != nil {
							failNow(t, ev, "enum", c, err)
						}
					}
				}
			}
			ev.Extra[fmt.Sprintf("W_%s_shared=%v_asym=%v_solo=%v", target, shared, asym, solo)] = W
		}
	}
	ev.Exhaust = true
}

// TestC15Multi: random multi-fault plans.
func TestC15Multi(t *testing.T) {
	ev := newEv("C15")
	ev.Rule = "random multi-fault plans (1-3 failing Writes with drawn codes) on the same scenario family"
	runProp(t, ev, "enum", true, func(rt *rapid.T) c15Case {
		c := c15Case{Target: rapid.SampledFrom([]string{"est", "mod", "modqer", "modpdr", "del"}).Draw(rt, "target"), Shared: rapid.Bool().Draw(rt, "shared"), After: rapid.IntRange(2, 6).Draw(rt, "after"), Multi: map[int]string{}, DelOther: rapid.Bool().Draw(rt, "delother"), Asym: rapid.Bool().Draw(rt, "asym"), Solo: rapid.IntRange(0, 3).Draw(rt, "solo") == 0}
		for i := 0; i < rapid.IntRange(1, 3).Draw(rt, "nf"); i++ {
			c.Multi[rapid.IntRange(1, 9).Draw(rt, "k")] = rapid.SampledFrom(c15Codes).Draw(rt, "code")
		}
		return c
	}, runC15)
}

func init() {
	registerFns = append(registerFns, func() { registerReplay("C15", "enum", runC15) })
}
