//go:build verif

package props

import (
	"fmt"
	"testing"
	"time"

	"github.com/omec-project/upf-epc/pfcpiface"
	"github.com/wmnsk/go-pfcp/ie"
	"github.com/wmnsk/go-pfcp/message"
	"pgregory.net/rapid"

	"verif/harness/model"
)

// ---------- C02 while the agent originates requests of its own ----------
//
// Responses are written by the association's receive loop, the agent's own Heartbeat Requests by its heartbeat
// monitor, Session Report Requests by the node: three goroutines share one socket. Each burst of peer requests
// must still be answered exactly once each, and every datagram of the agent must be well-formed.

type c02Conc struct {
	HBMs   int   `json:"hb_ms"`  // heart_beat_interval of the agent
	Bursts []int `json:"bursts"` // number of peer Heartbeat Requests sent back to back per burst
	Sess   int   `json:"sess"`   // session establishments interleaved between the bursts
	// Reassoc: before every second burst the peer sets the association up again on the same connection (as a
	// control plane that lost track does) while the agent's heartbeats keep going out
	Reassoc bool `json:"reassoc,omitempty"`
}

func genC02Conc(t *rapid.T) c02Conc {
	c := c02Conc{HBMs: rapid.SampledFrom([]int{2, 3, 5, 10}).Draw(t, "hb"), Sess: rapid.IntRange(0, 3).Draw(t, "sess"), Reassoc: rapid.Bool().Draw(t, "reassoc")}
	n := rapid.IntRange(2, scale(8, 16)).Draw(t, "nbursts")
	for i := 0; i < n; i++ {
		c.Bursts = append(c.Bursts, rapid.IntRange(1, 60).Draw(t, "burst"))
	}
	return c
}

func runC02Conc(c c02Conc, ev *Ev) error {
	r, err := newRig(RigOpts{Mut: func(conf *pfcpiface.Conf) {
		conf.EnableHBTimer = true
		conf.HeartBeatInterval = fmt.Sprintf("%dms", c.HBMs)
		conf.RespTimeout = "2s"
		conf.MaxReqRetries = 3
	}})
	if err != nil {
		return fmt.Errorf("INFRA: %v", err)
	}
	run, err := r.newRunner(1)
	if err != nil {
		return fmt.Errorf("INFRA: %v", err)
	}
	defer run.Close()
	if o := run.Exec(opAssoc(0, 1)); !o.Accepted {
		return fmt.Errorf("INFRA: association not accepted")
	}
	p := run.Peers[0].P
	seq := uint32(0x10000)
	total := 0
	for bi, n := range c.Bursts {
		if bi < c.Sess {
			op := c05Sess(bi, false, false, "")
			if o := run.Exec(op); o.NoResp || !o.Accepted {
				return fmt.Errorf("establishment %d between the bursts: noresp=%v cause=%d", bi, o.NoResp, o.Cause)
			}
		}
		if c.Reassoc && bi%2 == 1 {
			if o := run.Exec(opAssoc(0, uint32(0x300+bi))); o.NoResp || !o.Accepted {
				return fmt.Errorf("repeated Association Setup before burst %d: noresp=%v cause=%d", bi, o.NoResp, o.Cause)
			}
		}
		p.Drain()
		want := map[uint32]int{}
		for k := 0; k < n; k++ {
			seq++
			want[seq] = 0
			if err := p.Send(message.NewHeartbeatRequest(seq, ie.NewRecoveryTimeStamp(model.PeerTS), nil)); err != nil {
				return fmt.Errorf("INFRA: send: %v", err)
			}
		}
		total += n
		got := 0
		deadline := time.Now().Add(5 * time.Second)
		for got < n && time.Now().Before(deadline) {
			d, err := p.RecvFresh(200 * time.Millisecond)
			if err != nil {
				continue
			}
			m, perr := message.Parse(d.B)
			if perr != nil {
				return fmt.Errorf("burst %d: the agent sent an undecodable datagram %x (%v)", bi, d.B, perr)
			}
			hr, ok := m.(*message.HeartbeatResponse)
			if !ok {
				return fmt.Errorf("burst %d: unexpected %s from the agent while only Heartbeat Requests were outstanding", bi, m.MessageTypeName())
			}
			cnt, mine := want[hr.Sequence()]
			if !mine {
				return fmt.Errorf("burst %d: Heartbeat Response with sequence number %d, which no outstanding request carries", bi, hr.Sequence())
			}
			if cnt != 0 {
				return fmt.Errorf("burst %d: Heartbeat Request seq %d was answered twice", bi, hr.Sequence())
			}
			want[hr.Sequence()] = 1
			got++
		}
		if got < n {
			missing := 0
			for _, v := range want {
				if v == 0 {
					missing++
				}
			}
			return fmt.Errorf("burst %d: %d of %d Heartbeat Requests sent back to back were never answered (agent heartbeats every %d ms)", bi, missing, n, c.HBMs)
		}
		// nothing more may come
		if d, err := p.RecvFresh(5 * time.Millisecond); err == nil {
			return fmt.Errorf("burst %d: surplus datagram %x after all %d requests were answered", bi, d.B, n)
		}
	}
	// the agent's own heartbeats were well-formed requests with pairwise distinct sequence numbers
	seen := map[uint32][]byte{}
	for _, q := range p.HBSeen() {
		if prev, dup := seen[q.Seq]; dup && string(prev) != string(q.Raw) {
			return fmt.Errorf("two different agent heartbeats carry sequence number %d", q.Seq)
		}
		seen[q.Seq] = q.Raw
		if _, err := message.Parse(q.Raw); err != nil {
			return fmt.Errorf("agent heartbeat does not decode: %x", q.Raw)
		}
	}
	ev.Label(fmt.Sprintf("hb=%dms", c.HBMs))
	ev.Case(c, len(seen) >= 3 && total >= 50, total)
	return nil
}

func TestC02Conc(t *testing.T) {
	ev := newEv("C02")
	ev.Rule = "fresh agent with heartbeats every 2-10 ms (answered by the scripted peer) under the race detector: bursts of 1-60 peer Heartbeat Requests sent back to back, interleaved with session establishments and (half of the cases) repeated Association Setups, while the agent's heartbeat monitor writes to the same socket; every request of a burst must be answered exactly once with its sequence number, nothing else may arrive, every agent heartbeat must decode; non-trivial = >= 3 agent heartbeats observed and >= 50 peer requests; distinct by case"
	ev.Assume = []string{"overlap of the writing goroutines is sampled by timing and the race detector, not enumerated"}
	runProp(t, ev, "conc", true, genC02Conc, runC02Conc)
}

func init() {
	registerFns = append(registerFns, func() { registerReplay("C02", "conc", runC02Conc) })
}
