package props

import (
	"bufio"
	"bytes"
	"encoding/json"
	"fmt"
	"io"
	"math"
	"net"
	"net/http"
	"strings"
	"testing"
	"time"

	"pgregory.net/rapid"

	"verif/harness/rig"
)

// ---------- C19: the slice REST endpoint programs what was posted, or nothing ----------

type c19Case struct {
	UP4      bool   `json:"up4,omitempty"`
	V        int    `json:"v,omitempty"` // UP4 configuration variant (slice id, default TC)
	Method   string `json:"method"`
	Body     string `json:"body"`
	Kind     string `json:"kind"` // valid | malformed | truncated | method
	UL       uint64 `json:"ul,omitempty"`
	DL       uint64 `json:"dl,omitempty"`
	Unit     string `json:"unit,omitempty"`
	HasUnit  bool   `json:"hasunit,omitempty"`
	ULBurst  uint64 `json:"ulburst,omitempty"`
	DLBurst  uint64 `json:"dlburst,omitempty"`
	ClaimLen int    `json:"claimlen,omitempty"` // Content-Length for the truncated kind
	// Repeat: the same request is sent a second time (a control plane that pushes its configuration again, or
	// retries after a failure it saw elsewhere): every well-formed PUT/POST programs the datapath, not only the first
	Repeat bool `json:"repeat,omitempty"`
}

var unitMul = map[string]uint64{"bps": 1, "Kbps": 1000, "Mbps": 1000000, "Gbps": 1000000000}

func genRate(t *rapid.T, label string) uint64 {
	return rapid.OneOf(
		rapid.Uint64Range(0, 1<<40),
		rapid.Uint64(),
		rapid.SampledFrom([]uint64{0, 1, 7, 8, 9, 1000, 9223372036854, 9223372036855, 9223372036854775, 9223372036854776, 9223372036, 9223372037,
			1<<63 - 1, 1 << 63, 1<<64 - 1, 1 << 62, 18446744073709, 18446744073710}),
	).Draw(t, label)
}

func genC19(t *rapid.T) c19Case {
	c := c19Case{UP4: rapid.IntRange(0, 3).Draw(t, "up4") == 0}
	if c.UP4 {
		c.V = rapid.IntRange(0, len(up4Variants)-1).Draw(t, "variant")
	}
	switch rapid.IntRange(0, 9).Draw(t, "kind") {
	case 0, 1, 2, 3, 4:
		c.Kind = "valid"
		c.Method = rapid.SampledFrom([]string{"PUT", "POST"}).Draw(t, "m")
		c.UL, c.DL = genRate(t, "ul"), genRate(t, "dl")
		c.ULBurst = rapid.OneOf(rapid.Uint64Range(0, 1<<32), rapid.Uint64()).Draw(t, "ulb")
		c.DLBurst = rapid.OneOf(rapid.Uint64Range(0, 1<<32), rapid.Uint64()).Draw(t, "dlb")
		c.Unit = rapid.SampledFrom([]string{"bps", "Kbps", "Mbps", "Gbps", "", "Tbps", "mbps", "KBPS"}).Draw(t, "unit")
		c.HasUnit = c.Unit != "" || rapid.Bool().Draw(t, "emptyunit")
		q := map[string]any{"uplinkMbr": c.UL, "downlinkMbr": c.DL, "uplinkBurstSize": c.ULBurst, "downlinkBurstSize": c.DLBurst}
		if c.HasUnit {
			q["bitrateUnit"] = c.Unit
		}
		doc := map[string]any{"sliceName": "slice1", "sliceQos": q}
		if rapid.Bool().Draw(t, "ueres") {
			doc["ueResourceInfo"] = []map[string]string{{"uePoolId": "pool1", "dnn": "internet"}}
		}
		b, _ := json.Marshal(doc)
		c.Body = string(b)
	case 5, 6:
		c.Kind = "malformed"
		c.Method = rapid.SampledFrom([]string{"PUT", "POST"}).Draw(t, "m")
		c.Body = rapid.SampledFrom([]string{
			``, `{`, `{"sliceName":`, `[]`, `"x"`, `5`, `{"sliceQos":{"uplinkMbr":"fast"}}`, `{"sliceQos":{"uplinkMbr":-1}}`,
			`{"sliceQos":{"uplinkMbr":18446744073709551616}}`, `{"sliceQos":[]}`, `{"sliceName":5}`, `not json`, `{"sliceQos":{"uplinkMbr":1.5}}`,
			`{"sliceQos":{"bitrateUnit":5}}`, `{"ueResourceInfo":{}}`, `{"sliceName":"a"}}`, "\x00\x01", `{"sliceQos":{"uplinkMbr":100,"downlinkMbr":200,"bitrateUnit":"Mbps"}`,
		}).Draw(t, "bad")
	case 7:
		c.Kind = "truncated"
		c.Method = rapid.SampledFrom([]string{"PUT", "POST"}).Draw(t, "m")
		full := `{"sliceName":"slice1","sliceQos":{"uplinkMbr":100,"downlinkMbr":200,"bitrateUnit":"Mbps","uplinkBurstSize":1000,"downlinkBurstSize":1000}}`
		k := rapid.IntRange(0, len(full)-1).Draw(t, "cut")
		c.Body = full[:k]
		c.ClaimLen = len(full) + rapid.IntRange(0, 50).Draw(t, "extra")
	default:
		c.Kind = "method"
		c.Method = rapid.SampledFrom([]string{"GET", "DELETE", "PATCH", "HEAD", "OPTIONS", "put", "post", "TRACE", "FOO", "CONNECT"}).Draw(t, "om")
		if rapid.Bool().Draw(t, "withbody") {
			c.Body = `{"sliceName":"slice1","sliceQos":{"uplinkMbr":100,"downlinkMbr":200,"bitrateUnit":"Mbps"}}`
		}
	}
	c.Repeat = rapid.IntRange(0, 3).Draw(t, "repeat") == 0
	return c
}

// rawHTTP sends the request over a plain TCP connection and returns status line code and body.
func rawHTTP(addr string, c c19Case) (int, []byte, int, error) {
	conn, err := net.DialTimeout("tcp", addr, 2*time.Second)
	if err != nil {
		return 0, nil, 0, fmt.Errorf("INFRA: dial: %v", err)
	}
	defer conn.Close()
	_ = conn.SetDeadline(time.Now().Add(40 * time.Second))
	clen := len(c.Body)
	if c.Kind == "truncated" {
		clen = c.ClaimLen
	}
	req := fmt.Sprintf("%s /v1/config/network-slices HTTP/1.1\r\nHost: upf\r\nContent-Type: application/json\r\nContent-Length: %d\r\nConnection: close\r\n\r\n%s", c.Method, clen, c.Body)
	if _, err := io.WriteString(conn, req); err != nil {
		return 0, nil, 0, fmt.Errorf("INFRA: write: %v", err)
	}
	if c.Kind == "truncated" {
		if tc, ok := conn.(*net.TCPConn); ok {
			_ = tc.CloseWrite()
		}
	}
	all, _ := io.ReadAll(conn)
	// count the status lines (a second response on the same connection would show up here)
	nStatus := bytes.Count(all, []byte("HTTP/1.1 ")) + bytes.Count(all, []byte("HTTP/1.0 "))
	br := bufio.NewReader(bytes.NewReader(all))
	resp, err := http.ReadResponse(br, &http.Request{Method: c.Method})
	if err != nil {
		return 0, all, nStatus, fmt.Errorf("no parsable HTTP response (%d bytes): %v", len(all), err)
	}
	body, _ := io.ReadAll(resp.Body)
	return resp.StatusCode, body, nStatus, nil
}

func singleJSON(b []byte) bool {
	dec := json.NewDecoder(bytes.NewReader(b))
	var v any
	if err := dec.Decode(&v); err != nil {
		return false
	}
	if dec.More() {
		return false
	}
	rest, _ := io.ReadAll(dec.Buffered())
	return strings.TrimSpace(string(rest)) == ""
}

func convRate(v uint64, unit string, hasUnit bool) (uint64, bool) {
	mul, ok := unitMul[unit]
	if !ok {
		mul = 1000000 // Mbps when unstated (an unknown unit is treated like an unstated one; not asserted)
		if hasUnit && unit != "" {
			return 0, false
		}
	}
	if v == 0 {
		return 0, false
	}
	hi, lo := bitsMul(v, mul)
	if hi != 0 || lo >= 1<<63 {
		return 0, false
	}
	return lo, true
}

func bitsMul(a, b uint64) (uint64, uint64) {
	const mask = 1<<32 - 1
	a0, a1 := a&mask, a>>32
	b0, b1 := b&mask, b>>32
	w0 := a0 * b0
	t := a1*b0 + w0>>32
	w1 := t & mask
	w2 := t >> 32
	w1 += a0 * b1
	hi := a1*b1 + w2 + w1>>32
	lo := a * b
	return hi, lo
}

func sliceRig(c c19Case) (*Rig, error) {
	if c.UP4 {
		return up4Rig(c.V)
	}
	return sharedRig("bess-noalloc", RigOpts{})
}

func runC19(c c19Case, ev *Ev) error {
	if c.Repeat {
		once := c
		once.Repeat = false
		if err := runC19(once, ev); err != nil {
			return err
		}
		if err := runC19(once, newEv("C19")); err != nil {
			return fmt.Errorf("the same request sent a second time: %w", err)
		}
		ev.Label("repeated")
		return nil
	}
	r, err := sliceRig(c)
	if err != nil {
		return fmt.Errorf("INFRA: %v", err)
	}
	var from int
	if r.B != nil {
		r.B.WaitQuiet(5 * time.Second)
		from = r.B.LogLen()
	} else {
		r.P4.WaitQuiet(5 * time.Second)
		from = r.P4.LogLen()
	}
	// a burst that is zero or absent in one direction must be programmed the same whether or not the other
	// direction posts a burst: learn what the same document without any burst programs (BESS, valid documents)
	calPbs := map[string]uint64{}
	if r.B != nil && c.Kind == "valid" && (c.ULBurst == 0) != (c.DLBurst == 0) {
		q := map[string]any{"uplinkMbr": c.UL, "downlinkMbr": c.DL}
		if c.HasUnit {
			q["bitrateUnit"] = c.Unit
		}
		b, _ := json.Marshal(map[string]any{"sliceName": "slice1", "sliceQos": q})
		cal := c
		cal.Body, cal.ULBurst, cal.DLBurst = string(b), 0, 0
		if st, _, _, err := rawHTTP(r.A.HTTP, cal); err == nil && st == 201 {
			r.B.WaitQuiet(5 * time.Second)
			for _, e := range r.B.Snap().Slice {
				if len(e.Fields) == 2 && e.Fields[0] == 1 && e.Fields[1] == 0 {
					calPbs["uplink"] = e.Pbs
				}
				if len(e.Fields) == 2 && e.Fields[0] == 0 && e.Fields[1] == 1 {
					calPbs["downlink"] = e.Pbs
				}
			}
		}
		from = r.B.LogLen()
	}
	seq0 := rig.Events.Load()
	status, body, nStatus, err := rawHTTP(r.A.HTTP, c)
	if err != nil {
		if strings.HasPrefix(err.Error(), "INFRA:") {
			return err
		}
		return fmt.Errorf("%s %q: %v", c.Method, c.Body, err)
	}
	var cmds []rig.Cmd
	if r.B != nil {
		r.B.WaitQuiet(5 * time.Second)
		for _, cm := range r.B.LogSince(from) {
			if cm.Module == "sliceMeter" {
				cmds = append(cmds, cm)
			}
		}
	}
	nWrites := 0
	if r.P4 != nil {
		r.P4.WaitQuiet(5 * time.Second)
		for _, w := range r.P4.LogSince(from) {
			nWrites += w.N
		}
		if c.Kind != "valid" && nWrites != 0 {
			return fmt.Errorf("%s request of kind %s (%q) made the agent write %d update(s) to the switch, want none", c.Method, c.Kind, c.Body, nWrites)
		}
	}
	if nStatus != 1 {
		return fmt.Errorf("%s: %d HTTP responses on the connection, want 1", c.Method, nStatus)
	}
	nontriv := false
	switch c.Kind {
	case "valid":
		if status != 201 {
			return fmt.Errorf("well-formed %s answered %d, want 201 (body %q)", c.Method, status, c.Body)
		}
		if !singleJSON(body) {
			return fmt.Errorf("201 response body is not a single JSON document: %q", body)
		}
		if r.B != nil {
			snap := r.B.Snap()
			find := func(action, tun uint64) *rig.QEntry {
				for i := range snap.Slice {
					e := &snap.Slice[i]
					if len(e.Fields) == 2 && e.Fields[0] == action && e.Fields[1] == tun {
						return e
					}
				}
				return nil
			}
			check := func(dir string, e *rig.QEntry, rate uint64, burst uint64) error {
				conv, ok := convRate(rate, c.Unit, c.HasUnit)
				if !ok {
					return nil // zero rate, unknown unit or a value beyond 63 bits: nothing asserted
				}
				if conv > math.MaxInt64/2 {
					nontriv = true
				}
				if e == nil {
					return fmt.Errorf("%s slice meter entry missing after 201 (rate %d %s)", dir, rate, c.Unit)
				}
				if e.Gate != 0 {
					return fmt.Errorf("%s slice meter gate %d, want 0 (metered) for rate %d %s", dir, e.Gate, rate, c.Unit)
				}
				if e.Pir != conv/8 {
					return fmt.Errorf("%s slice meter pir %d bytes/s, want %d (= %d %s / 8)", dir, e.Pir, conv/8, rate, c.Unit)
				}
				if burst != 0 && e.Pbs != burst {
					return fmt.Errorf("%s slice meter pbs %d, want the posted burst %d", dir, e.Pbs, burst)
				}
				if cal, ok := calPbs[dir]; ok && burst == 0 && e.Pbs != cal {
					return fmt.Errorf("%s slice meter pbs %d for a document that posts no %s burst; the same document without any burst programs %d (the other direction's burst leaked)", dir, e.Pbs, dir, cal)
				}
				return nil
			}
			if err := check("uplink", find(1, 0), c.UL, c.ULBurst); err != nil {
				return err
			}
			if err := check("downlink", find(0, 1), c.DL, c.DLBurst); err != nil {
				return err
			}
		} else {
			// UP4 has one slice/TC meter cell for both directions: (slice id << 2) + default TC. Asserted when
			// both posted rates are non-zero and convertible; the cell must then carry the larger converted rate
			// (as posted in bits/s, or in bytes/s - the statement leaves the cell's unit open) and the burst
			// posted for that direction.
			ul, okU := convRate(c.UL, c.Unit, c.HasUnit)
			dl, okD := convRate(c.DL, c.Unit, c.HasUnit)
			if okU && okD {
				uv := up4Variants[c.V]
				idx := int64(uv.Slice)<<2 + int64(uv.DefaultTC)
				m := r.P4.Meter("slice_tc_meter", idx)
				if m == nil || m.Seq <= seq0 || m.Cfg == nil {
					return fmt.Errorf("201 for slice rates %d/%d %s but slice_tc_meter cell %d (slice %d, TC %d) was not written (%d updates seen)", c.UL, c.DL, c.Unit, idx, uv.Slice, uv.DefaultTC, nWrites)
				}
				want, burst := ul, []uint64{c.ULBurst}
				if dl > ul {
					want, burst = dl, []uint64{c.DLBurst}
				} else if dl == ul {
					burst = []uint64{c.ULBurst, c.DLBurst}
				}
				if want > math.MaxInt64/2 {
					nontriv = true
				}
				if uint64(m.Cfg.Pir) != want && uint64(m.Cfg.Pir) != want/8 {
					return fmt.Errorf("slice_tc_meter cell %d pir %d, want the larger of the posted rates: %d bit/s (or %d bytes/s) for %d/%d %s", idx, m.Cfg.Pir, want, want/8, c.UL, c.DL, c.Unit)
				}
				okBurst := false
				for _, b := range burst {
					okBurst = okBurst || b == 0 || b >= 1<<63 || uint64(m.Cfg.Pburst) == b
				}
				if !okBurst {
					return fmt.Errorf("slice_tc_meter cell %d pburst %d, want the burst posted for the direction with the larger rate (%v)", idx, m.Cfg.Pburst, burst)
				}
				for _, w := range r.P4.LogSince(from) {
					for _, u := range w.Updates {
						if me := u.Entity.GetMeterEntry(); me == nil || me.Index == nil || me.Index.Index != idx {
							return fmt.Errorf("a slice configuration wrote something else than slice_tc_meter cell %d: %v", idx, w.Kinds)
						}
					}
				}
			}
		}
	case "malformed", "truncated":
		nontriv = true
		if status < 400 || status > 499 {
			return fmt.Errorf("malformed body %q answered %d, want 4xx", c.Body, status)
		}
		if !singleJSON(body) {
			return fmt.Errorf("response to malformed body %q is not a single JSON document: %q", c.Body, body)
		}
		if len(cmds) != 0 {
			return fmt.Errorf("malformed body %q programmed the datapath: %d sliceMeter command(s)", c.Body, len(cmds))
		}
	case "method":
		if status != 405 {
			return fmt.Errorf("method %s answered %d, want 405", c.Method, status)
		}
		if len(cmds) != 0 {
			return fmt.Errorf("method %s programmed the datapath: %d sliceMeter command(s)", c.Method, len(cmds))
		}
	}
	ev.Label(c.Kind)
	ev.Label(fmt.Sprintf("up4=%v/%s", c.UP4, c.Kind))
	ev.Case(c, nontriv, len(c.Body))
	return nil
}

func TestC19(t *testing.T) {
	ev := newEv("C19")
	ev.Rule = "real HTTP requests to /v1/config/network-slices of the in-process agent on BESS (3 of 4 cases) and UP4 (three slice id / default TC configurations): PUT/POST of generated slice documents (all units incl. absent/unknown, 64-bit rates and bursts with overflow boundaries), malformed and truncated bodies, other methods; non-trivial = valid document whose converted rate is within a factor 2 of 2^63, or a malformed/unreadable body; distinct by request"
	ev.Assume = []string{"unknown unit strings and zero bursts/rates are generated but nothing is asserted about what they program (the statement is silent)"}
	runProp(t, ev, "req", true, genC19, runC19)
}

func init() {
	registerFns = append(registerFns, func() { registerReplay("C19", "req", runC19) })
}
