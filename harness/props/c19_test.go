package props

import (
	"bufio"
	"bytes"
	"encoding/json"
	"fmt"
	"io"
	"math"
	"net"
	"net/http"
	"strings"
	"testing"
	"time"

	"pgregory.net/rapid"

	"verif/harness/rig"
)

// ---------- C19: the slice REST endpoint programs what was posted, or nothing ----------

type c19Case struct {
	UP4      bool   `json:"up4,omitempty"`
	Method   string `json:"method"`
	Body     string `json:"body"`
	Kind     string `json:"kind"` // valid | malformed | truncated | method
	UL       uint64 `json:"ul,omitempty"`
	DL       uint64 `json:"dl,omitempty"`
	Unit     string `json:"unit,omitempty"`
	HasUnit  bool   `json:"hasunit,omitempty"`
	ULBurst  uint64 `json:"ulburst,omitempty"`
	DLBurst  uint64 `json:"dlburst,omitempty"`
	ClaimLen int    `json:"claimlen,omitempty"` // Content-Length for the truncated kind
}

var unitMul = map[string]uint64{"bps": 1, "Kbps": 1000, "Mbps": 1000000, "Gbps": 1000000000}

func genRate(t *rapid.T, label string) uint64 {
	return rapid.OneOf(
		rapid.Uint64Range(0, 1<<40),
		rapid.Uint64(),
		rapid.SampledFrom([]uint64{0, 1, 7, 8, 9, 1000, 9223372036854, 9223372036855, 9223372036854775, 9223372036854776, 9223372036, 9223372037,
			1<<63 - 1, 1 << 63, 1<<64 - 1, 1 << 62, 18446744073709, 18446744073710}),
	).Draw(t, label)
}

func genC19(t *rapid.T) c19Case {
	c := c19Case{UP4: false}
	switch rapid.IntRange(0, 9).Draw(t, "kind") {
	case 0, 1, 2, 3, 4:
		c.Kind = "valid"
		c.Method = rapid.SampledFrom([]string{"PUT", "POST"}).Draw(t, "m")
		c.UL, c.DL = genRate(t, "ul"), genRate(t, "dl")
		c.ULBurst = rapid.OneOf(rapid.Uint64Range(0, 1<<32), rapid.Uint64()).Draw(t, "ulb")
		c.DLBurst = rapid.OneOf(rapid.Uint64Range(0, 1<<32), rapid.Uint64()).Draw(t, "dlb")
		c.Unit = rapid.SampledFrom([]string{"bps", "Kbps", "Mbps", "Gbps", "", "Tbps", "mbps", "KBPS"}).Draw(t, "unit")
		c.HasUnit = c.Unit != "" || rapid.Bool().Draw(t, "emptyunit")
		q := map[string]any{"uplinkMbr": c.UL, "downlinkMbr": c.DL, "uplinkBurstSize": c.ULBurst, "downlinkBurstSize": c.DLBurst}
		if c.HasUnit {
			q["bitrateUnit"] = c.Unit
		}
		doc := map[string]any{"sliceName": "slice1", "sliceQos": q}
		if rapid.Bool().Draw(t, "ueres") {
			doc["ueResourceInfo"] = []map[string]string{{"uePoolId": "pool1", "dnn": "internet"}}
		}
		b, _ := json.Marshal(doc)
		c.Body = string(b)
	case 5, 6:
		c.Kind = "malformed"
		c.Method = rapid.SampledFrom([]string{"PUT", "POST"}).Draw(t, "m")
		c.Body = rapid.SampledFrom([]string{
			``, `{`, `{"sliceName":`, `[]`, `"x"`, `5`, `{"sliceQos":{"uplinkMbr":"fast"}}`, `{"sliceQos":{"uplinkMbr":-1}}`,
			`{"sliceQos":{"uplinkMbr":18446744073709551616}}`, `{"sliceQos":[]}`, `{"sliceName":5}`, `not json`, `{"sliceQos":{"uplinkMbr":1.5}}`,
			`{"sliceQos":{"bitrateUnit":5}}`, `{"ueResourceInfo":{}}`, `{"sliceName":"a"}}`, "\x00\x01", `{"sliceQos":{"uplinkMbr":100,"downlinkMbr":200,"bitrateUnit":"Mbps"}`,
		}).Draw(t, "bad")
	case 7:
		c.Kind = "truncated"
		c.Method = rapid.SampledFrom([]string{"PUT", "POST"}).Draw(t, "m")
		full := `{"sliceName":"slice1","sliceQos":{"uplinkMbr":100,"downlinkMbr":200,"bitrateUnit":"Mbps","uplinkBurstSize":1000,"downlinkBurstSize":1000}}`
		k := rapid.IntRange(0, len(full)-1).Draw(t, "cut")
		c.Body = full[:k]
		c.ClaimLen = len(full) + rapid.IntRange(0, 50).Draw(t, "extra")
	default:
		c.Kind = "method"
		c.Method = rapid.SampledFrom([]string{"GET", "DELETE", "PATCH", "HEAD", "OPTIONS", "put", "post", "TRACE", "FOO", "CONNECT"}).Draw(t, "om")
		if rapid.Bool().Draw(t, "withbody") {
			c.Body = `{"sliceName":"slice1","sliceQos":{"uplinkMbr":100,"downlinkMbr":200,"bitrateUnit":"Mbps"}}`
		}
	}
	return c
}

// rawHTTP sends the request over a plain TCP connection and returns status line code and body.
func rawHTTP(addr string, c c19Case) (int, []byte, int, error) {
	conn, err := net.DialTimeout("tcp", addr, 2*time.Second)
	if err != nil {
		return 0, nil, 0, fmt.Errorf("INFRA: dial: %v", err)
	}
	defer conn.Close()
	_ = conn.SetDeadline(time.Now().Add(40 * time.Second))
	clen := len(c.Body)
	if c.Kind == "truncated" {
		clen = c.ClaimLen
	}
	req := fmt.Sprintf("%s /v1/config/network-slices HTTP/1.1\r\nHost: upf\r\nContent-Type: application/json\r\nContent-Length: %d\r\nConnection: close\r\n\r\n%s", c.Method, clen, c.Body)
	if _, err := io.WriteString(conn, req); err != nil {
		return 0, nil, 0, fmt.Errorf("INFRA: write: %v", err)
	}
	if c.Kind == "truncated" {
		if tc, ok := conn.(*net.TCPConn); ok {
			_ = tc.CloseWrite()
		}
	}
	all, _ := io.ReadAll(conn)
	// count the status lines (a second response on the same connection would show up here)
	nStatus := bytes.Count(all, []byte("HTTP/1.1 ")) + bytes.Count(all, []byte("HTTP/1.0 "))
	br := bufio.NewReader(bytes.NewReader(all))
	resp, err := http.ReadResponse(br, &http.Request{Method: c.Method})
	if err != nil {
		return 0, all, nStatus, fmt.Errorf("no parsable HTTP response (%d bytes): %v", len(all), err)
	}
	body, _ := io.ReadAll(resp.Body)
	return resp.StatusCode, body, nStatus, nil
}

func singleJSON(b []byte) bool {
	dec := json.NewDecoder(bytes.NewReader(b))
	var v any
	if err := dec.Decode(&v); err != nil {
		return false
	}
	if dec.More() {
		return false
	}
	rest, _ := io.ReadAll(dec.Buffered())
	return strings.TrimSpace(string(rest)) == ""
}

func convRate(v uint64, unit string, hasUnit bool) (uint64, bool) {
	mul, ok := unitMul[unit]
	if !ok {
		mul = 1000000 // Mbps when unstated (an unknown unit is treated like an unstated one; not asserted)
		if hasUnit && unit != "" {
			return 0, false
		}
	}
	if v == 0 {
		return 0, false
	}
	hi, lo := bitsMul(v, mul)
	if hi != 0 || lo >= 1<<63 {
		return 0, false
	}
	return lo, true
}

func bitsMul(a, b uint64) (uint64, uint64) {
	const mask = 1<<32 - 1
	a0, a1 := a&mask, a>>32
	b0, b1 := b&mask, b>>32
	w0 := a0 * b0
	t := a1*b0 + w0>>32
	w1 := t & mask
	w2 := t >> 32
	w1 += a0 * b1
	hi := a1*b1 + w2 + w1>>32
	lo := a * b
	return hi, lo
}

func sliceRig(up4 bool) (*Rig, error) {
	if up4 {
		return sharedRig("up4-plain", RigOpts{UP4: true})
	}
	return sharedRig("bess-noalloc", RigOpts{})
}

func runC19(c c19Case, ev *Ev) error {
	r, err := sliceRig(c.UP4)
	if err != nil {
		return fmt.Errorf("INFRA: %v", err)
	}
	var from int
	if r.B != nil {
		r.B.WaitQuiet(5 * time.Second)
		from = r.B.LogLen()
	} else {
		from = r.P4.LogLen()
	}
	status, body, nStatus, err := rawHTTP(r.A.HTTP, c)
	if err != nil {
		if strings.HasPrefix(err.Error(), "INFRA:") {
			return err
		}
		return fmt.Errorf("%s %q: %v", c.Method, c.Body, err)
	}
	var cmds []rig.Cmd
	if r.B != nil {
		r.B.WaitQuiet(5 * time.Second)
		for _, cm := range r.B.LogSince(from) {
			if cm.Module == "sliceMeter" {
				cmds = append(cmds, cm)
			}
		}
	}
	if nStatus != 1 {
		return fmt.Errorf("%s: %d HTTP responses on the connection, want 1", c.Method, nStatus)
	}
	nontriv := false
	switch c.Kind {
	case "valid":
		if status != 201 {
			return fmt.Errorf("well-formed %s answered %d, want 201 (body %q)", c.Method, status, c.Body)
		}
		if !singleJSON(body) {
			return fmt.Errorf("201 response body is not a single JSON document: %q", body)
		}
		if r.B != nil {
			snap := r.B.Snap()
			find := func(action, tun uint64) *rig.QEntry {
				for i := range snap.Slice {
					e := &snap.Slice[i]
					if len(e.Fields) == 2 && e.Fields[0] == action && e.Fields[1] == tun {
						return e
					}
				}
				return nil
			}
			check := func(dir string, e *rig.QEntry, rate uint64, burst uint64) error {
				conv, ok := convRate(rate, c.Unit, c.HasUnit)
				if !ok {
					return nil // zero rate, unknown unit or a value beyond 63 bits: nothing asserted
				}
				if conv > math.MaxInt64/2 {
					nontriv = true
				}
				if e == nil {
					return fmt.Errorf("%s slice meter entry missing after 201 (rate %d %s)", dir, rate, c.Unit)
				}
				if e.Gate != 0 {
					return fmt.Errorf("%s slice meter gate %d, want 0 (metered) for rate %d %s", dir, e.Gate, rate, c.Unit)
				}
				if e.Pir != conv/8 {
					return fmt.Errorf("%s slice meter pir %d bytes/s, want %d (= %d %s / 8)", dir, e.Pir, conv/8, rate, c.Unit)
				}
				if burst != 0 && e.Pbs != burst {
					return fmt.Errorf("%s slice meter pbs %d, want the posted burst %d", dir, e.Pbs, burst)
				}
				return nil
			}
			if err := check("uplink", find(1, 0), c.UL, c.ULBurst); err != nil {
				return err
			}
			if err := check("downlink", find(0, 1), c.DL, c.DLBurst); err != nil {
				return err
			}
		}
	case "malformed", "truncated":
		nontriv = true
		if status < 400 || status > 499 {
			return fmt.Errorf("malformed body %q answered %d, want 4xx", c.Body, status)
		}
		if !singleJSON(body) {
			return fmt.Errorf("response to malformed body %q is not a single JSON document: %q", c.Body, body)
		}
		if len(cmds) != 0 {
			return fmt.Errorf("malformed body %q programmed the datapath: %d sliceMeter command(s)", c.Body, len(cmds))
		}
	case "method":
		if status != 405 {
			return fmt.Errorf("method %s answered %d, want 405", c.Method, status)
		}
		if len(cmds) != 0 {
			return fmt.Errorf("method %s programmed the datapath: %d sliceMeter command(s)", c.Method, len(cmds))
		}
	}
	ev.Label(c.Kind)
	ev.Case(c, nontriv, len(c.Body))
	return nil
}

func TestC19(t *testing.T) {
	ev := newEv("C19")
	ev.Rule = "real HTTP requests to /v1/config/network-slices of the in-process agent: PUT/POST of generated slice documents (all units incl. absent/unknown, 64-bit rates and bursts with overflow boundaries), malformed and truncated bodies, other methods; non-trivial = valid document whose converted rate is within a factor 2 of 2^63, or a malformed/unreadable body; distinct by request"
	ev.Assume = []string{"unknown unit strings and zero bursts/rates are generated but nothing is asserted about what they program (the statement is silent)"}
	runProp(t, ev, "req", true, genC19, runC19)
}

func init() {
	registerFns = append(registerFns, func() { registerReplay("C19", "req", runC19) })
}
