package props

import (
	"fmt"
	"net/http"
	"os"
	"path/filepath"
	"strings"
	"testing"
	"time"

	"github.com/omec-project/upf-epc/pfcpiface"
	p4 "github.com/p4lang/p4runtime/go/p4/v1"
	"pgregory.net/rapid"

	"verif/harness/model"
	"verif/harness/rig"
	"verif/harness/sim"
)

// ---------- crash points of C03 / C04: the real binary is killed and restarted ----------

type restartCase struct {
	UP4      bool       `json:"up4,omitempty"`
	Junk     int        `json:"junk"`
	Slice    bool       `json:"slice"`    // a slice configuration is pushed over REST before the kill
	H1       []model.Op `json:"h1"`       // history of the first incarnation
	KillAt   int        `json:"kill_at"`  // kill after this many ops of H1
	InFlight bool       `json:"inflight"` // the next request is sent and the agent killed without waiting for the answer
	H2       []model.Op `json:"h2"`       // history of the second incarnation
	Clear    bool       `json:"clear"`    // UP4: clear_state_on_restart
}

func genRestart(up4 bool) func(t *rapid.T) restartCase {
	return func(t *rapid.T) restartCase {
		c := restartCase{UP4: up4, Junk: rapid.IntRange(0, 12).Draw(t, "junk"), Slice: rapid.Bool().Draw(t, "slice"), InFlight: rapid.Bool().Draw(t, "inflight"), Clear: rapid.Bool().Draw(t, "clear")}
		mk := func(base int, n int) []model.Op {
			ops := []model.Op{opAssoc(0, uint32(base))}
			for k := 0; k < n; k++ {
				idx := base + k
				var op model.Op
				if up4 {
					op, _ = genUP4Sess(t, idx%200, 0, false, false)
					op.Sess = idx
				} else {
					ctx := mkSessCtx(t, idx, 0)
					op = model.Op{Kind: "est", Sess: idx, CPSEID: uint64(idx)}
					op.PDRs, op.FARs, op.QERs = genRules(t, ruleKnobs{maxPairs: 2, sdf: true, qers: true, buffer: true, ranges: true, accessN3: accessIP()}, ctx)
				}
				op.Peer, op.Seq = 0, uint32(base+10+k)
				ops = append(ops, op)
				if rapid.Bool().Draw(t, "mod") {
					ops = append(ops, model.Op{Kind: "mod", Seq: uint32(base + 50 + k), Sess: idx, UpdFARs: []model.FAR{genUP4DLFAR(t, 2)}, Note: "updfar"})
				}
			}
			return ops
		}
		c.H1 = mk(100, rapid.IntRange(1, 4).Draw(t, "n1"))
		c.KillAt = rapid.IntRange(1, len(c.H1)).Draw(t, "killat")
		c.H2 = mk(300, rapid.IntRange(1, 3).Draw(t, "n2"))
		return c
	}
}

func runRestart(c restartCase, ev *Ev) error {
	bin := os.Getenv("VERIF_AGENT_BIN")
	if bin == "" {
		return fmt.Errorf("INFRA: VERIF_AGENT_BIN not set")
	}
	n4, hp := nextAddr()
	dir := filepath.Join(outDir, "ext")
	var conf pfcpiface.Conf
	var b *rig.Bessd
	var d *rig.P4d
	var err error
	bessAddr := ""
	if c.UP4 {
		if d, err = rig.NewP4d("127.0.0.1:0"); err != nil {
			return fmt.Errorf("INFRA: %v", err)
		}
		conf = rig.BaseConfUP4(n4, hp, d.Addr)
		conf.P4rtcIface.ClearStateOnRestart = c.Clear
		// junk left behind by an incarnation before the first one
		for i := 0; i < c.Junk; i++ {
			d.InjectRaw(junkP4Entry(d, i))
		}
	} else {
		if b, err = rig.NewBessd("127.0.0.1:0"); err != nil {
			return fmt.Errorf("INFRA: %v", err)
		}
		b.InjectJunk(c.Junk, uint64(hp)*13+1)
		conf = rig.BaseConfBESS(n4, hp)
		bessAddr = b.Addr
	}
	conf.LogLevel = 2 // error
	p4from := 0
	start := func(tag string) (*rig.ExtAgent, *sim.Runner, error) {
		e, err := rig.StartBinary(bin, conf, bessAddr, dir)
		if err != nil {
			return nil, nil, fmt.Errorf("INFRA: %s incarnation: %v", tag, err)
		}
		if d != nil {
			if !d.WaitInitSince(p4from, 10*time.Second) {
				e.Kill()
				return nil, nil, fmt.Errorf("%s incarnation never initialised the switch (interfaces entries missing)", tag)
			}
			time.Sleep(30 * time.Millisecond)
		} else {
			// the four clears are issued before the PFCP socket exists
			b.WaitQuiet(2 * time.Second)
		}
		base := 1 + int(caseSeq.Add(1)%250)
		run, err := sim.NewRunner(e.Agent, b, d, 1, base)
		if err != nil {
			e.Kill()
			return nil, nil, fmt.Errorf("INFRA: %v", err)
		}
		return e, run, nil
	}
	checkStartup := func(tag string, from int, p4from int) error {
		if b != nil {
			cmds := b.LogSince(from)
			want := []string{"pdrLookup", "farLookup", "appQERLookup", "sessionQERLookup"}
			seen := map[string]bool{}
			for i, cm := range cmds {
				if cm.Cmd != "clear" {
					if len(seen) < 4 && (cm.Module == "pdrLookup" || cm.Module == "farLookup" || cm.Module == "appQERLookup" || cm.Module == "sessionQERLookup") {
						return fmt.Errorf("%s incarnation: command %d (%s %s) precedes the clearing of all four lookup modules", tag, i, cm.Module, cm.Cmd)
					}
					continue
				}
				if cm.Module == "sliceMeter" {
					return fmt.Errorf("%s incarnation cleared sliceMeter, which is to be kept across restarts", tag)
				}
				seen[cm.Module] = true
			}
			for _, m := range want {
				if !seen[m] {
					return fmt.Errorf("%s incarnation did not clear %s at start-up", tag, m)
				}
			}
			s := b.Snap()
			if len(s.PDR)+len(s.FAR)+len(s.AppQ)+len(s.SessQ) != 0 {
				return fmt.Errorf("%s incarnation started but the lookup modules still hold %d/%d/%d/%d entries left behind", tag, len(s.PDR), len(s.FAR), len(s.AppQ), len(s.SessQ))
			}
		}
		return nil
	}
	from := 0
	e1, run1, err := start("first")
	if err != nil {
		return err
	}
	defer func() { e1.Kill(); e1.Cleanup() }()
	if err := checkStartup("first", from, 0); err != nil {
		return err
	}
	var sliceBefore []rig.QEntry
	if c.Slice {
		body := `{"sliceName":"s","sliceQos":{"uplinkMbr":100,"downlinkMbr":200,"bitrateUnit":"Mbps","uplinkBurstSize":1000,"downlinkBurstSize":2000}}`
		if resp, err := http.Post("http://"+e1.Agent.HTTP+"/v1/config/network-slices", "application/json", strings.NewReader(body)); err == nil {
			resp.Body.Close()
		}
		if b != nil {
			b.WaitQuiet(2 * time.Second)
			sliceBefore = b.Snap().Slice
		}
	}
	for i, op := range c.H1[:c.KillAt] {
		o := run1.Exec(op)
		if o.NoResp {
			run1.Close()
			return fmt.Errorf("first incarnation: op %d (%s) not answered", i, op.Kind)
		}
	}
	if c.InFlight && c.KillAt < len(c.H1) {
		// send the next request and kill without waiting
		nx := c.H1[c.KillAt]
		switch nx.Kind {
		case "est":
			_ = run1.Peers[0].P.Send(model.Establishment(nx.Seq, run1.Peers[0].NodeID, nx.CPSEID, run1.Peers[0].IP, nx))
		case "mod":
			if s := run1.Sess[nx.Sess]; s != nil {
				_ = run1.Peers[0].P.Send(model.Modification(nx.Seq, s.UPSEID, run1.Peers[0].IP, nx))
			}
		}
		time.Sleep(time.Duration(200+int(caseSeq.Load()%7)*150) * time.Microsecond)
	}
	e1.Kill()
	run1.Close()
	if b != nil {
		if !b.WaitDrained(5 * time.Second) {
			return fmt.Errorf("INFRA: the BESS stand-in still has a client after the agent was killed")
		}
		from = b.LogLen()
	} else {
		d.WaitQuiet(2 * time.Second)
		time.Sleep(10 * time.Millisecond)
		p4from = d.LogLen()
	}
	leftover := 0
	if d != nil {
		for name, es := range d.Snap().Tables {
			if name != "interfaces" {
				leftover += len(es)
			}
		}
	} else {
		s := b.Snap()
		leftover = len(s.PDR) + len(s.FAR) + len(s.AppQ) + len(s.SessQ)
	}
	e2, run2, err := start("second")
	if err != nil {
		return err
	}
	defer func() { e2.Kill(); e2.Cleanup() }()
	defer run2.Close()
	if err := checkStartup("second", from, 0); err != nil {
		return err
	}
	if b != nil && c.Slice {
		after := b.Snap().Slice
		if fmt.Sprint(after) != fmt.Sprint(sliceBefore) && len(sliceBefore) > 0 {
			return fmt.Errorf("the slice meter changed across the restart: %v -> %v", sliceBefore, after)
		}
	}
	env := up4Env(0)
	if d != nil {
		if _, err := run2.CheckUP4Image(d.Snap(), env, sim.UP4Opts{}); err != nil {
			return fmt.Errorf("after the restart (before any request): %w", err)
		}
	}
	for i, op := range c.H2 {
		o := run2.Exec(op)
		if o.NoResp {
			return fmt.Errorf("second incarnation: op %d (%s) not answered", i, op.Kind)
		}
		if op.Kind == "assoc" {
			if !o.Accepted {
				// UP4 flags itself connected a moment after start-up
				time.Sleep(50 * time.Millisecond)
				if o = run2.Exec(opAssoc(0, op.Seq+1)); !o.Accepted {
					return fmt.Errorf("second incarnation does not accept an association")
				}
			}
			continue
		}
		if !o.Accepted {
			return fmt.Errorf("second incarnation: %s inside the envelope rejected (cause %d)", op.Kind, o.Cause)
		}
		if b != nil {
			if err := run2.CheckBessImage(b.Snap(), bessEnv(), sim.BessImageOpts{Packets: true, QER: true}); err != nil {
				return fmt.Errorf("second incarnation after op %d (%s): %w", i, op.Kind, err)
			}
		} else if _, err := run2.CheckUP4Image(d.Snap(), env, sim.UP4Opts{}); err != nil {
			return fmt.Errorf("second incarnation after op %d (%s): %w", i, op.Kind, err)
		}
	}
	ev.Label(fmt.Sprintf("up4=%v/leftover>0=%v/inflight=%v", c.UP4, leftover > 0, c.InFlight && c.KillAt < len(c.H1)))
	ev.Case(c, leftover > 0 && len(c.H2) > 1, len(c.H1)+len(c.H2))
	return nil
}

func junkP4Entry(d *rig.P4d, i int) *p4.TableEntry {
	// a sessions_uplink entry of nobody
	var tid, aid uint32
	for _, t := range d.Info.Tables {
		if strings.HasSuffix(t.Preamble.Name, "sessions_uplink") {
			tid = t.Preamble.Id
			aid = t.ActionRefs[0].Id
		}
	}
	return &p4.TableEntry{TableId: tid, Match: []*p4.FieldMatch{
		{FieldId: 1, FieldMatchType: &p4.FieldMatch_Exact_{Exact: &p4.FieldMatch_Exact{Value: []byte{198, 18, 0, 1}}}},
		{FieldId: 2, FieldMatchType: &p4.FieldMatch_Exact_{Exact: &p4.FieldMatch_Exact{Value: []byte{0, 0, 0x77, byte(i + 1)}}}},
	}, Action: &p4.TableAction{Type: &p4.TableAction_Action{Action: &p4.Action{ActionId: aid, Params: []*p4.Action_Param{{ParamId: 1, Value: []byte{0, 0, 0, 0}}}}}}}
}

func TestC03Restart(t *testing.T) {
	ev := newEv("C03")
	ev.Rule = "crash points with the real cmd/pfcpiface binary on BESS: the harness BESS server is pre-populated with 0-12 junk entries per module, the first incarnation runs a generated history (optionally a slice configuration over REST), is killed with SIGKILL after the k-th response or with the next request in flight, a second incarnation starts against the same server: its first commands must clear the four lookup modules (never sliceMeter), the tables must be empty, and after each request of a second history equal the image of the new incarnation's sessions only; non-trivial = entries were left behind at the kill and the second history has sessions"
	runProp(t, ev, "restart", true, genRestart(false), runRestart)
}

func TestC04Restart(t *testing.T) {
	ev := newEv("C04")
	ev.Rule = "crash points with the real cmd/pfcpiface binary on UP4: junk sessions entries are injected into the harness switch, the first incarnation runs a generated history and is killed with SIGKILL after the k-th response or with a request in flight, a second incarnation starts against the same switch (clear_state_on_restart on and off): before any request and after each request of a second history the switch must hold exactly the two interfaces entries plus the image of the new incarnation's sessions; non-trivial = entries were left behind at the kill and the second history has sessions"
	runProp(t, ev, "restart", true, genRestart(true), runRestart)
}

func init() {
	registerFns = append(registerFns, func() {
		registerReplay("C03", "restart", runRestart)
		registerReplay("C04", "restart", runRestart)
	})
}
