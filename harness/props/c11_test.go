//go:build verif

package props

import (
	"fmt"
	"math/rand"
	"sync"
	"sync/atomic"
	"testing"
	"time"

	"github.com/omec-project/upf-epc/pfcpiface"
	"pgregory.net/rapid"

	"verif/harness/model"
	"verif/harness/rig"
	"verif/harness/sim"
)

// ---------- C11: concurrent associations do not interfere ----------

type c11Stream struct {
	Ops   []model.Op `json:"ops"`
	Pause []int      `json:"pause_us"` // sleep before each op
}

type c11Case struct {
	UP4 bool `json:"up4"`
	// Alloc (BESS): the UP allocates the UE addresses from a pool of six, so that a released address is
	// handed to the next establishment of whichever association at once
	Alloc   bool        `json:"alloc,omitempty"`
	Streams []c11Stream `json:"streams"`
	DelayUs int         `json:"delay_us"` // max random service delay of the datapath server
}

func genC11(t *rapid.T) c11Case {
	c := c11Case{UP4: rapid.Bool().Draw(t, "up4"), DelayUs: rapid.SampledFrom([]int{0, 200, 2000}).Draw(t, "delay")}
	c.Alloc = !c.UP4 && rapid.Bool().Draw(t, "alloc")
	if c.Alloc && c.DelayUs == 0 {
		c.DelayUs = 200
	}
	nPeers := rapid.IntRange(2, scale(6, 8)).Draw(t, "peers")
	for p := 0; p < nPeers; p++ {
		var st c11Stream
		nSess := rapid.IntRange(1, scale(6, 12)).Draw(t, "nsess")
		live := []int{}
		estOf := map[int]model.Op{}
		for k := 0; k < nSess; k++ {
			idx := p*100 + k
			var op model.Op
			if c.UP4 {
				op, _ = genUP4Sess(t, idx, 0, false, false)
				for i := range op.PDRs {
					if op.PDRs[i].Src == "access" && !op.PDRs[i].Choose {
						op.PDRs[i].TEID = uint32(idx+1)<<12 | op.PDRs[i].TEID&0xfff
					}
					if op.PDRs[i].Src == "core" {
						op.PDRs[i].UEIP = fmt.Sprintf("10.250.%d.%d", 10+p, 1+k)
					}
				}
			} else {
				ctx := mkSessCtx(t, idx, p)
				op = model.Op{Kind: "est", Sess: idx, CPSEID: uint64(idx)}
				op.PDRs, op.FARs, op.QERs = genRules(t, ruleKnobs{maxPairs: 2, choose: true, sdf: true, qers: true, buffer: true, ranges: true, accessN3: accessIP()}, ctx)
				if c.Alloc {
					for i := range op.PDRs {
						if op.PDRs[i].Src == "core" {
							op.PDRs[i].UEAlloc, op.PDRs[i].UEIP = true, ""
						} else {
							op.PDRs[i].HasUE, op.PDRs[i].UEIP = false, ""
						}
					}
				}
			}
			op.Peer, op.Seq, op.Sess = 0, uint32(1000+k), idx
			st.Ops = append(st.Ops, op)
			live = append(live, idx)
			estOf[idx] = op
			// interleave modifications and deletions of this peer's own sessions
			if rapid.Bool().Draw(t, "mod") && len(live) > 0 {
				si := live[rapid.IntRange(0, len(live)-1).Draw(t, "msi")]
				nf := genUP4DLFAR(t, 2)
				mod := model.Op{Kind: "mod", Seq: uint32(2000 + k), Sess: si, UpdFARs: []model.FAR{nf}, Note: "updfar"}
				// every third modification also carries an Update PDR that re-states a downlink PDR of the session
				// (the bookkeeping of UE addresses is touched again while other associations are busy)
				if rapid.IntRange(0, 2).Draw(t, "updpdr") == 0 {
					for _, pd := range estOf[si].PDRs {
						if pd.Src == "core" && !pd.UEAlloc {
							mod.UpdPDRs = []model.PDR{pd}
							mod.Note = "updfar+updpdr"
							break
						}
					}
				}
				st.Ops = append(st.Ops, mod)
			}
			delOneIn := 4
			if c.Alloc {
				delOneIn = 2 // keep the pool of six hovering around full: releases and establishments alternate
			}
			if rapid.IntRange(0, delOneIn-1).Draw(t, "del") == 0 && len(live) > 0 {
				j := rapid.IntRange(0, len(live)-1).Draw(t, "dsi")
				st.Ops = append(st.Ops, model.Op{Kind: "del", Seq: uint32(3000 + k), Sess: live[j]})
				live = append(live[:j], live[j+1:]...)
			}
		}
		for range st.Ops {
			st.Pause = append(st.Pause, rapid.SampledFrom([]int{0, 0, 0, 50, 300, 1500}).Draw(t, "pause"))
		}
		c.Streams = append(c.Streams, st)
	}
	return c
}

func runC11(c c11Case, ev *Ev) error {
	r, err := newRig(RigOpts{UP4: c.UP4, Mut: func(conf *pfcpiface.Conf) {
		if c.Alloc {
			conf.CPIface.EnableUeIPAlloc = true
			conf.CPIface.UEIPPool = "10.250.0.8/29"
		}
	}})
	if err != nil {
		return fmt.Errorf("INFRA: %v", err)
	}
	r.Base = r.A.Iface.VerifPools()
	if c.DelayUs > 0 {
		rnd := rand.New(rand.NewSource(int64(c.DelayUs) + int64(len(c.Streams))))
		var mu sync.Mutex
		d := func() time.Duration {
			mu.Lock()
			defer mu.Unlock()
			return time.Duration(rnd.Intn(c.DelayUs+1)) * time.Microsecond
		}
		if r.B != nil {
			r.B.Inject(func(b *rig.Bessd) {
				b.Delay = func(_, cmd string) time.Duration {
					if c.Alloc && cmd == "delete" {
						return 4 * d() // deletions linger: what they release is requested again meanwhile
					}
					return d()
				}
			})
		} else {
			r.P4.SetDelay(d)
		}
	}
	runs := make([]*sim.Runner, len(c.Streams))
	for i := range c.Streams {
		run, err := r.newRunner(1)
		if err != nil {
			return fmt.Errorf("INFRA: %v", err)
		}
		defer run.Close()
		runs[i] = run
		if o := run.Exec(opAssoc(0, 1)); !o.Accepted {
			return fmt.Errorf("INFRA: association %d not accepted", i)
		}
	}
	var wg sync.WaitGroup
	var nRefused, occupied, dryEvents atomic.Int64
	const poolSize = 6
	errs := make([]error, len(c.Streams))
	start := make(chan struct{})
	for i, st := range c.Streams {
		wg.Add(1)
		go func(i int, st c11Stream) {
			defer wg.Done()
			<-start
			refused := map[int]bool{}
			for k, op := range st.Ops {
				if st.Pause[k] > 0 {
					time.Sleep(time.Duration(st.Pause[k]) * time.Microsecond)
				}
				if refused[op.Sess] {
					continue // the session was refused for want of a free UE address: nothing to modify or delete
				}
				var dryBefore int64
				var occStart int64
				if c.Alloc && op.Kind == "est" {
					op.Note = "any"
					// occupied = addresses that may be taken: sessions accepted and not yet acknowledged as deleted,
					// plus establishments in flight (this one included)
					// (read before this request is counted: whatever pushes the count over the pool size from here
					// on, another request or this one, falls into this request's window)
					dryBefore = dryEvents.Load()
					occStart = occupied.Add(1)
					if occStart >= poolSize+1 {
						dryEvents.Add(1)
					}
				}
				o := runs[i].Exec(op)
				if c.Alloc && op.Kind == "est" && !o.Accepted {
					occupied.Add(-1)
				}
				if c.Alloc && op.Kind == "del" && o.Accepted {
					occupied.Add(-1)
				}
				if o.NoResp || !o.Alive {
					errs[i] = fmt.Errorf("peer %d op %d (%s session %d): no response (alive=%v)", i, k, op.Kind, op.Sess, o.Alive)
					return
				}
				if c.Alloc && op.Kind == "est" && !o.Accepted && !o.NoResp && (occStart >= poolSize+1 || dryEvents.Load() != dryBefore) {
					// six addresses for all associations: at some moment of this request the others may have held
					// them all, so a refusal is a correct answer
					refused[op.Sess] = true
					nRefused.Add(1)
					continue
				}
				if !o.Accepted {
					errs[i] = fmt.Errorf("peer %d op %d: %s of its own session %d rejected with cause %d while other associations were busy", i, k, op.Kind, op.Sess, o.Cause)
					return
				}
				if err := checkRespC02(runs[i], o, r.A.N4); err != nil {
					errs[i] = fmt.Errorf("peer %d op %d: %w", i, k, err)
					return
				}
			}
		}(i, st)
	}
	close(start)
	wg.Wait()
	for _, e := range errs {
		if e != nil {
			return e
		}
	}
	// the final tables are the union of the per-peer images
	all, err := r.newRunner(1)
	if err != nil {
		return fmt.Errorf("INFRA: %v", err)
	}
	defer all.Close()
	seids := map[uint64]int{}
	teids := map[uint32]int{}
	for i, run := range runs {
		for idx, s := range run.Sess {
			all.Sess[idx] = s
			if s.Live {
				if o, dup := seids[s.UPSEID]; dup {
					// SEIDs are per association: a clash across associations is legal but would alias datapath keys
					_ = o
				}
				seids[s.UPSEID] = i
				for _, tv := range s.ChosenTEID {
					if o, dup := teids[tv]; dup {
						return fmt.Errorf("TEID %d was chosen for sessions of peers %d and %d at the same time", tv, o, i)
					}
					teids[tv] = i
				}
			}
		}
	}
	var maxInfl int64
	if r.B != nil {
		r.B.WaitQuiet(5 * time.Second)
		maxInfl = r.B.MaxInflight()
		if err := all.CheckBessImage(r.B.Snap(), bessEnv(), sim.BessImageOpts{QER: true}); err != nil {
			return fmt.Errorf("after the concurrent streams: %w", err)
		}
	} else {
		r.P4.WaitQuiet(5 * time.Second)
		maxInfl = r.P4.MaxInflight()
		if _, err := all.CheckUP4Image(r.P4.Snap(), up4Env(0), sim.UP4Opts{Meters: true}); err != nil {
			return fmt.Errorf("after the concurrent streams: %w", err)
		}
	}
	// delete everything concurrently: tables empty, pools conserved
	start2 := make(chan struct{})
	for i, run := range runs {
		wg.Add(1)
		go func(i int, run *sim.Runner) {
			defer wg.Done()
			<-start2
			for _, s := range run.LiveSessions() {
				if o := run.Exec(model.Op{Kind: "del", Seq: uint32(9000 + s.Idx%1000), Sess: s.Idx}); !o.Accepted {
					errs[i] = fmt.Errorf("peer %d: final deletion of session %d rejected (cause %d)", i, s.Idx, o.Cause)
					return
				}
			}
		}(i, run)
	}
	close(start2)
	wg.Wait()
	for _, e := range errs {
		if e != nil {
			return e
		}
	}
	if r.B != nil {
		r.B.WaitQuiet(5 * time.Second)
		if s := r.B.Snap(); len(s.PDR)+len(s.FAR)+len(s.AppQ)+len(s.SessQ) != 0 {
			return fmt.Errorf("after every session was deleted the BESS tables still hold %d PDR / %d FAR / %d+%d QER entries", len(s.PDR), len(s.FAR), len(s.AppQ), len(s.SessQ))
		}
	} else {
		r.P4.WaitQuiet(5 * time.Second)
		if _, err := all.CheckUP4Image(r.P4.Snap(), up4Env(0), sim.UP4Opts{Meters: true}); err != nil {
			return fmt.Errorf("after every session was deleted: %w", err)
		}
	}
	pools := r.A.Iface.VerifPools()
	for k, v := range r.Base {
		if pools[k] != v {
			return fmt.Errorf("after every session was deleted pool counter %s is %d, want the start-up value %d", k, pools[k], v)
		}
	}
	shared := false
	gn := map[string]int{}
	for _, run := range runs {
		for _, s := range run.Sess {
			for _, f := range s.FARs {
				if f.HasOHC {
					gn[f.Peer]++
					shared = shared || gn[f.Peer] > 1
				}
			}
		}
	}
	ev.Label(fmt.Sprintf("up4=%v/peers=%d", c.UP4, len(c.Streams)))
	if c.Alloc {
		ev.Label(fmt.Sprintf("alloc/pool-ran-dry=%v", nRefused.Load() > 0))
	}
	ev.Case(c, len(c.Streams) >= 3 && shared && maxInfl > 1, len(c.Streams))
	return nil
}

func TestC11(t *testing.T) {
	ev := newEv("C11")
	ev.Rule = "fresh agent per case on BESS or UP4 under the race detector: 2-8 control-plane peers each run an own generated establish / Update FAR / delete stream at the same time with generated pacing, sharing gNB addresses and application filters on UP4, and on a third of the BESS cases drawing their UE addresses from a UP pool of six (an establishment may then be refused for want of an address), while the harness datapath server adds 0-2 ms random service delays; each peer's responses are checked against its own sequential model, the final tables against the union of the per-peer images, then everything is deleted concurrently and tables and pool counters (hook) must be back to start-up values; non-trivial = >= 3 peers, a shared gNB, and overlapping in-flight datapath RPCs observed; distinct by case"
	ev.Assume = []string{"schedules are sampled (pacing, service delays, 16 busy cores), not enumerated; a window narrower than the jitter can be missed"}
	runProp(t, ev, "streams", true, genC11, runC11)
}

func init() {
	registerFns = append(registerFns, func() { registerReplay("C11", "streams", runC11) })
}
