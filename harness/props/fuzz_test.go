//go:build verif

package props

// Native, coverage-guided fuzzing layer (thorough tier only; DESIGN.md section 3.8).
//
// Each target feeds the bytes the Go fuzzer produces to the *same* run function and oracle as the rapid
// unit of its property, so a crasher is a plain JSON case that `./check <ID> quick --replay F` re-executes
// without the fuzzer. The fuzzer cannot be pinned to VERIF_SEED; the saved case is the reproducible unit.
// Workers are separate processes: evidence is written per worker (shard = pid) every few thousand inputs.

import (
	"encoding/hex"
	"fmt"
	"os"
	"path/filepath"
	"regexp"
	"strings"
	"sync"
	"testing"
	"time"

	"github.com/omec-project/upf-epc/pfcpiface"
	"pgregory.net/rapid"

	"verif/harness/model"
)



var fuzzState struct {
	once sync.Once
	ev   *Ev
	n    int
	last time.Time
}

// fuzzEv returns the per-process evidence collector of a fuzz target.
func fuzzEv(id, rule string) *Ev {
	fuzzState.once.Do(func() {
		fuzzMode = true
		shard = os.Getpid()
		ev := newEv(id)
		ev.Rule = rule
		ev.Assume = []string{"native fuzzing is not a function of VERIF_SEED: the corpus evolves by coverage feedback; a failure is saved as a JSON case and confirmed by replay in fresh processes"}
		fuzzState.ev = ev
		startStallWatch()
	})
	return fuzzState.ev
}

// fuzzStep runs one generated case through the unit's run function and oracle.
func fuzzStep[C any](t *testing.T, ev *Ev, sub string, journal bool, c C, run func(C, *Ev) error) {
	if journal {
		// the case in flight, so that the driver can attribute the death of a worker process
		writeReplay(journalPath(ev.Property), ev.Property, sub, c, "journal")
	}
	err := func() (err error) {
		defer func() {
			if r := recover(); r != nil {
				err = fmt.Errorf("INFRA: harness panic: %v", r)
			}
		}()
		return run(c, ev)
	}()
	fuzzState.n++
	if fuzzState.n%4096 == 0 || err != nil || time.Since(fuzzState.last) > 3*time.Second {
		fuzzState.last = time.Now()
		ev.write()
	}
	if err == nil || strings.HasPrefix(err.Error(), "DISCARD:") {
		return
	}
	writeReplay(failPath(ev.Property), ev.Property, sub, c, err.Error())
	t.Fatalf("%s/%s: %v", ev.Property, sub, err)
}

// ---- C18: configuration documents ----

func FuzzC18(f *testing.F) {
	repo := envOr("VERIF_REPO", "/repo")
	for _, pat := range []string{"conf/upf.jsonc", "ptf/config/upf.jsonc"} {
		if b, err := os.ReadFile(filepath.Join(repo, pat)); err == nil {
			f.Add(b)
		}
	}
	for i := 0; i < 48; i++ {
		c := rapid.Custom(genC18).Example(i)
		f.Add([]byte(c.Doc))
		if c.Commented != "" {
			f.Add([]byte(c.Commented))
		}
	}
	for i := 0; i < 16; i++ {
		f.Add([]byte(rapid.Custom(genC18Adversarial).Example(i).Doc))
	}
	f.Fuzz(func(t *testing.T, doc []byte) {
		ev := fuzzEv("C18", "native fuzzing of LoadConfigFile from the shipped samples and generated documents: never panics; a returned configuration satisfies the validity predicate of the statement")
		fuzzStep(t, ev, "doc", false, c18Case{Doc: string(doc), Kind: "adversarial"}, runC18)
	})
}

// ---- C08: flow descriptions at the parser ----

var (
	fdCharset = regexp.MustCompile(`^[a-z0-9./ -]*$`)
	fdAddr    = regexp.MustCompile(`^(any|assigned|(0|[1-9][0-9]{0,2})(\.(0|[1-9][0-9]{0,2})){3}(/(0|[1-9][0-9]?))?)$`)
	fdPort    = regexp.MustCompile(`^(0|[1-9][0-9]{0,4})(-(0|[1-9][0-9]{0,4}))?$`)
	fdProto   = regexp.MustCompile(`^(ip|tcp|udp|0|[1-9][0-9]{0,2})$`)
)

// strictFD reports whether the text is lexically inside the grammar of the statement (single spaces, decimal
// numbers without sign or leading zeros, dotted IPv4 with an optional /len): only then is the independent
// parser's verdict the specification; everything else only has to be survived.
func strictFD(text string) bool {
	if !fdCharset.MatchString(text) || strings.Join(strings.Fields(text), " ") != text {
		return false
	}
	toks := strings.Fields(text)
	if len(toks) < 7 || !fdProto.MatchString(toks[2]) {
		return false
	}
	for i := 3; i < len(toks); i++ {
		switch toks[i] {
		case "from", "to":
			if i+1 >= len(toks) || !fdAddr.MatchString(toks[i+1]) {
				return false
			}
		default:
			if toks[i-1] == "from" || toks[i-1] == "to" {
				continue
			}
			if !fdPort.MatchString(toks[i]) {
				return false
			}
		}
	}
	return true
}

func runC08Fuzz(c c08Parse, ev *Ev) (err error) {
	defer func() {
		if r := recover(); r != nil {
			err = fmt.Errorf("flow-description parser panicked on %q: %v", c.Text, r)
		}
	}()
	if strictFD(c.Text) {
		_, perr := model.ParseFlow(c.Text)
		if perr == nil {
			ev.Label("fuzz-in-grammar")
			return runC08Parse(c08Parse{Text: c.Text, UE: c.UE}, ev)
		}
		// lexically clean text that the independent parser refuses for one of the reasons the statement names
		// (unknown action or direction, unparsable address or port, inverted range) must be refused as well
		for _, class := range []string{"unknown action", "unknown direction", "bad address", "bad port", "inverted port range"} {
			if strings.HasPrefix(perr.Error(), class) {
				ev.Label("fuzz-malformed/" + class)
				return runC08Parse(c08Parse{Text: c.Text, UE: c.UE, Corrupt: class}, ev)
			}
		}
	}
	// outside the grammar (or lexically unusual): survive; the statement fixes no outcome
	_, _ = pfcpiface.VerifParseFlowDesc(c.Text, c.UE)
	ev.Count(1)
	return nil
}

func FuzzC08(f *testing.F) {
	for i := 0; i < 64; i++ {
		fd := rapid.Custom(genFD).Example(i)
		f.Add(fd.Text(), uint8(i))
	}
	for _, s := range []string{"permit out ip from any to assigned", "permit out ip from", "permit out ip from any to", "deny in 17 from 10.0.0.0/8 1-2 to any 3-4", "permit out ip from any 90-80 to assigned"} {
		f.Add(s, uint8(0))
	}
	ues := []string{"10.60.0.9", "0.0.0.0", "", "172.16.1.1"}
	f.Fuzz(func(t *testing.T, text string, sel uint8) {
		ev := fuzzEv("C08", "native fuzzing of the flow-description parser hook: never panics; a text that is lexically and syntactically inside the grammar parses to exactly the independent parser's result")
		fuzzStep(t, ev, "fuzzparse", false, c08Parse{Text: text, UE: ues[int(sel)%len(ues)]}, runC08Fuzz)
	})
}

// ---- C17: pairs of port ranges ----

func FuzzC17(f *testing.F) {
	for _, s := range [][4]uint16{{0, 65535, 0, 65535}, {0, 0, 80, 80}, {1000, 1099, 53, 53}, {53, 53, 1000, 1100}, {1, 101, 0, 65535}, {65435, 65535, 0, 0}, {1024, 2047, 443, 443}} {
		f.Add(s[0], s[1], s[2], s[3])
	}
	f.Fuzz(func(t *testing.T, sl, sh, dl, dh uint16) {
		ev := fuzzEv("C17", "native fuzzing of the port-range product hook over (low, high) x (low, high): accepted pairs match exactly the product of the two ranges, unrepresentable pairs are refused")
		fuzzStep(t, ev, "pairs", false, c17Pair{SL: sl, SH: sh, DL: dl, DH: dh}, runC17Pair)
	})
}

// ---- C01: datagrams into a live agent ----

var c01FuzzStates = []string{"none", "assoc", "sess", "modded", "stripped", "deleted", "released"}

// c01FuzzCase places one raw datagram behind a fixed history that builds the selected state.
func c01FuzzCase(sel uint8, conf uint8, raw []byte) model.Case {
	state := c01FuzzStates[int(sel)%len(c01FuzzStates)]
	st := state
	if st == "stripped" {
		st = "modded"
	}
	c := map[string]any{"uealloc": conf&1 != 0, "up4": conf&6 == 6, "hb": false, "state": st, "fuzz": true, "post": true}
	var ops []model.Op
	hasSess := false
	if state != "none" {
		ops = append(ops, opAssoc(0, 10))
		if conf&8 != 0 {
			ops = append(ops, model.Op{Kind: "pfd", Peer: 0, Seq: 11, PFDs: []model.PFD{{App: "app1", Flows: []string{"permit out ip from 8.8.8.8 to assigned", "permit in udp from 8.8.4.4 53 to assigned"}}}})
		}
	}
	if state != "none" && state != "assoc" {
		cs := canonicalSess(0, 0, 20)
		ops = append(ops, cs[1])
		hasSess = true
		switch state {
		case "modded":
			ops = append(ops, cs[2])
		case "stripped":
			ops = append(ops, cs[2], model.Op{Kind: "mod", Peer: 0, Seq: 30, Sess: 0, RemPDRs: []uint16{1, 2}})
		case "deleted":
			ops = append(ops, cs[3])
		case "released":
			ops = append(ops, opRelease(0, 31))
		}
	}
	_, seq, _ := rawHdrSeq(raw)
	ops = append(ops, model.Op{Kind: "raw", Peer: 0, Seq: seq, Raw: hex.EncodeToString(raw), PatchSEID: hasSess && conf&16 == 0, Sess: 0,
		Note: "fuzz", Extra: map[string]any{"mut": []mutDesc{{Op: "fuzz"}}}})
	return model.Case{Conf: c, Ops: ops}
}

func rawHdrSeq(b []byte) (uint8, uint32, bool) {
	if len(b) < 8 {
		return 0, 0, false
	}
	off := 4
	if b[0]&1 != 0 {
		off = 12
	}
	if len(b) < off+3 {
		return b[1], 0, false
	}
	return b[1], uint32(b[off])<<16 | uint32(b[off+1])<<8 | uint32(b[off+2]), true
}

func FuzzC01(f *testing.F) {
	n := 0
	for i := 0; i < 96 && n < 160; i++ {
		c := rapid.Custom(genC01).Example(i)
		for _, op := range c.Ops {
			if op.Kind != "raw" {
				continue
			}
			if b, err := hex.DecodeString(op.Raw); err == nil {
				f.Add(uint8(i), uint8(i/7), b)
				n++
			}
		}
	}
	f.Fuzz(func(t *testing.T, sel uint8, conf uint8, raw []byte) {
		if len(raw) > 2048 {
			return
		}
		ev := fuzzEv("C01", "native fuzzing of the PFCP port: one datagram evolved by coverage feedback from mutated templates of every message type, injected behind a fixed history (no association, associated, session, modified, zero-PDR session, deleted, released; BESS and UP4, UE-IP allocation on/off); same oracle as the mutation unit")
		fuzzStep(t, ev, "mutants", true, c01FuzzCase(sel, conf, raw), runC01)
	})
}

func init() {
	registerFns = append(registerFns, func() { registerReplay("C08", "fuzzparse", runC08Fuzz) })
}
