package props

import (
	"crypto/sha256"
	"encoding/hex"
	"encoding/json"
	"fmt"
	"os"
	"path/filepath"
	"runtime/debug"
	"sort"
	"strconv"
	"strings"
	"sync"
	"testing"
	"time"

	"pgregory.net/rapid"
)

// ---- environment handed over by the driver ----

var (
	outDir  = envOr("VERIF_OUT", "/tmp/verif-out")
	shard   = envInt("VERIF_SHARD", 0)
	nShards = envInt("VERIF_NSHARDS", 1)
	tier    = envOr("VERIF_TIER", "quick")
	seed    = envInt("VERIF_SEED", 1)
	unit    = envOr("VERIF_UNIT", "u")
)

func envOr(k, d string) string {
	if v := os.Getenv(k); v != "" {
		return v
	}
	return d
}

func envInt(k string, d int) int {
	if v := os.Getenv(k); v != "" {
		if n, err := strconv.Atoi(v); err == nil {
			return n
		}
	}
	return d
}

func thorough() bool { return tier == "thorough" }

// scale returns q in the quick tier and t in the thorough tier.
func scale(q, t int) int {
	if thorough() {
		return t
	}
	return q
}

// ---- evidence ----

// Ev collects what a check actually covered in this shard.
type Ev struct {
	mu        sync.Mutex
	Property  string         `json:"property_id"`
	Evals     int            `json:"evaluations"`
	NonTriv   map[string]int `json:"-"`
	Labels    map[string]int `json:"labels"`
	Excluded  map[string]int `json:"excluded"`
	Samples   []any          `json:"samples"`
	Rule      string         `json:"rule"`
	Assume    []string       `json:"assumptions"`
	Known     []string       `json:"known_findings_reproduced"`
	Extra     map[string]any `json:"extra"`
	Failed    bool           `json:"failed"`
	FailMsg   string         `json:"fail_msg"`
	Exhaust   bool           `json:"exhaustive"`
	Classes   map[string]int `json:"-"`
	NTCount   int            `json:"-"` // distinct non-trivial cases counted without hashing (enumerations)
	biggest   int
	sampleCap int
}

func newEv(id string) *Ev {
	return &Ev{Property: id, NonTriv: map[string]int{}, Labels: map[string]int{}, Excluded: map[string]int{},
		Extra: map[string]any{}, sampleCap: 6, Classes: map[string]int{}}
}

func hashOf(v any) string {
	b, _ := json.Marshal(v)
	h := sha256.Sum256(b)
	return hex.EncodeToString(h[:8])
}

// Case records one executed case; nontrivial says whether it satisfies the property's rule.
func (e *Ev) Case(c any, nontrivial bool, size int) {
	e.mu.Lock()
	defer e.mu.Unlock()
	e.Evals++
	if nontrivial {
		e.NonTriv[hashOf(c)]++
	}
	switch {
	case len(e.Samples) < 2 && nontrivial:
		e.Samples = append(e.Samples, c)
	case size > e.biggest && nontrivial:
		e.biggest = size
		if len(e.Samples) < e.sampleCap {
			e.Samples = append(e.Samples, c)
		} else {
			e.Samples[2] = c
		}
	case nontrivial && len(e.Samples) < e.sampleCap && e.Evals%97 == 0:
		e.Samples = append(e.Samples, c)
	}
}

// Count bumps evaluations without recording a case (bulk enumerations).
func (e *Ev) Count(n int) {
	e.mu.Lock()
	e.Evals += n
	e.mu.Unlock()
}

// NTAdd adds n distinct non-trivial cases (distinct by construction, e.g. an enumeration).
func (e *Ev) NTAdd(n int) {
	e.mu.Lock()
	e.NTCount += n
	e.mu.Unlock()
}

// NT records a distinct non-trivial key without storing the case.
func (e *Ev) NT(key string) {
	e.mu.Lock()
	e.NonTriv[key]++
	e.mu.Unlock()
}

// Class records a coarse equivalence class of what was exercised (reported as a count).
func (e *Ev) Class(key string) {
	e.mu.Lock()
	e.Classes[key]++
	e.mu.Unlock()
}

func (e *Ev) Sample(c any) {
	e.mu.Lock()
	if len(e.Samples) < e.sampleCap {
		e.Samples = append(e.Samples, c)
	}
	e.mu.Unlock()
}

func (e *Ev) Label(l string) {
	e.mu.Lock()
	e.Labels[l]++
	e.mu.Unlock()
}

func (e *Ev) Exclude(l string) {
	e.mu.Lock()
	e.Excluded[l]++
	e.mu.Unlock()
}

func (e *Ev) write() {
	e.mu.Lock()
	defer e.mu.Unlock()
	_ = os.MkdirAll(outDir, 0o755)
	keys := make([]string, 0, len(e.NonTriv))
	for k := range e.NonTriv {
		keys = append(keys, k)
	}
	sort.Strings(keys)
	out := map[string]any{
		"property_id": e.Property, "evaluations": e.Evals, "nontrivial_keys": keys, "labels": e.Labels,
		"excluded": e.Excluded, "samples": e.Samples, "rule": e.Rule, "assumptions": e.Assume,
		"extra": e.Extra, "failed": e.Failed, "fail_msg": e.FailMsg, "exhaustive": e.Exhaust,
		"shard": shard, "known": e.Known, "classes": classKeys(e.Classes), "nontrivial_count": e.NTCount,
	}
	b, _ := json.MarshalIndent(out, "", " ")
	_ = os.WriteFile(filepath.Join(outDir, fmt.Sprintf("shard-%s-%s-%d.json", e.Property, unit, shard)), b, 0o644)
}

func classKeys(m map[string]int) []string {
	out := make([]string, 0, len(m))
	for k := range m {
		out = append(out, k)
	}
	sort.Strings(out)
	return out
}

// ---- journal and replay ----

type replayFile struct {
	Property string          `json:"property"`
	Tier     string          `json:"tier"`
	Seed     int             `json:"seed"`
	Sub      string          `json:"sub,omitempty"`
	Case     json.RawMessage `json:"case"`
	Msg      string          `json:"msg,omitempty"`
	// History: the cases the failing process had executed before, in order. Set by the driver when the case
	// alone does not fail in a fresh process: the code under test may keep state across requests of different
	// cases (a process-wide cache, say); replaying the history first puts that state back.
	History []json.RawMessage `json:"history,omitempty"`
}

func writeReplay(path, id, sub string, c any, msg string) {
	cb, _ := json.Marshal(c)
	b, _ := json.MarshalIndent(replayFile{Property: id, Tier: tier, Seed: seed, Sub: sub, Case: cb, Msg: msg}, "", " ")
	_ = os.MkdirAll(filepath.Dir(path), 0o755)
	_ = os.WriteFile(path, b, 0o644)
}

func journalPath(id string) string {
	return filepath.Join(outDir, fmt.Sprintf("journal-%s-%s-%d.json", id, unit, shard))
}

func histPath(id string) string {
	return filepath.Join(outDir, fmt.Sprintf("hist-%s-%s-%d.jsonl", id, unit, shard))
}

func failPath(id string) string {
	return filepath.Join(outDir, fmt.Sprintf("fail-%s-%s-%d.json", id, unit, shard))
}

// registry of replayable sub-checks: property id + sub name -> function running a raw JSON case.
var replayers = map[string]func(raw json.RawMessage) error{}

func registerReplay[C any](id, sub string, run func(C, *Ev) error) {
	replayers[id+"/"+sub] = func(raw json.RawMessage) error {
		var c C
		if err := json.Unmarshal(raw, &c); err != nil {
			return fmt.Errorf("replay file does not decode: %w", err)
		}
		return run(c, newEv(id))
	}
}

// runProp is the glue between rapid and a property: draw a case, journal it (so that a
// process crash can be attributed), run it, record evidence, and on failure remember the
// (shrunk) case so that a plain JSON replay file can be written.
func runProp[C any](t *testing.T, ev *Ev, sub string, journal bool, gen func(*rapid.T) C, run func(C, *Ev) error) {
	id := ev.Property
	registerReplay(id, sub, run)
	var lastFail *C
	var lastMsg string
	failed := true
	defer func() {
		if failed && lastFail != nil {
			writeReplay(failPath(id), id, sub, *lastFail, lastMsg)
			ev.Failed = true
			ev.FailMsg = lastMsg
		}
		ev.write()
	}()
	var hist *os.File
	if journal {
		_ = os.MkdirAll(outDir, 0o755)
		hist, _ = os.OpenFile(histPath(id), os.O_CREATE|os.O_WRONLY|os.O_APPEND, 0o644)
		if hist != nil {
			defer hist.Close()
		}
	}
	startStallWatch()
	rapid.Check(t, func(rt *rapid.T) {
		c := gen(rt)
		if journal {
			writeReplay(journalPath(id), id, sub, c, "journal")
			if hist != nil {
				if cb, err := json.Marshal(c); err == nil {
					_, _ = hist.Write(append(cb, '\n'))
				}
			}
		}
		err := func() (err error) {
			defer func() {
				if r := recover(); r != nil {
					err = fmt.Errorf("INFRA: harness panic: %v\n%s", r, debug.Stack())
				}
			}()
			if f := os.Getenv("VERIF_FORCE_INFRA_ONCE"); f != "" {
				// self-test of the driver's retry of set-up failures
				if _, serr := os.Stat(f); serr != nil {
					_ = os.WriteFile(f, nil, 0o644)
					return fmt.Errorf("INFRA: forced once")
				}
			}
			return run(c, ev)
		}()
		if err != nil && strings.HasPrefix(err.Error(), "DISCARD:") {
			// the case left the timing envelope the oracle assumes (the harness itself was late, say): it decides
			// nothing either way and is counted as excluded, never as a violation and never as a passed case
			ev.Exclude("discarded: " + discardReason(err))
			return
		}
		if err != nil {
			cc := c
			lastFail = &cc
			lastMsg = err.Error()
			rt.Fatalf("%s/%s: %v", id, sub, err)
		}
	})
	failed = t.Failed()
}

// failNow records a non-rapid failure (enumerations) with its replay file.
func failNow[C any](t *testing.T, ev *Ev, sub string, c C, err error) {
	writeReplay(failPath(ev.Property), ev.Property, sub, c, err.Error())
	ev.Failed = true
	ev.FailMsg = err.Error()
	ev.write()
	t.Fatalf("%s/%s: %v", ev.Property, sub, err)
}

// TestReplay re-executes a saved case without the generator library.
func TestReplay(t *testing.T) {
	path := os.Getenv("VERIF_REPLAY")
	if path == "" {
		t.Skip("VERIF_REPLAY not set")
	}
	b, err := os.ReadFile(path)
	if err != nil {
		t.Fatalf("INFRA: %v", err)
	}
	var rf replayFile
	if err := json.Unmarshal(b, &rf); err != nil {
		t.Fatalf("INFRA: %v", err)
	}
	registerAll()
	startStallWatch()
	f, ok := replayers[rf.Property+"/"+rf.Sub]
	if !ok {
		t.Fatalf("INFRA: no replayer for %s/%s", rf.Property, rf.Sub)
	}
	for _, h := range rf.History {
		func() {
			defer func() { _ = recover() }()
			_ = f(h) // whatever it says: only the state it leaves behind matters
		}()
	}
	if err := f(rf.Case); err != nil && strings.HasPrefix(err.Error(), "DISCARD:") {
		t.Logf("REPLAY-DISCARDED %s/%s: %v", rf.Property, rf.Sub, err)
	} else if err != nil {
		t.Fatalf("REPLAY-FAIL %s/%s: %v", rf.Property, rf.Sub, err)
	}
}

// ---- scheduling sentinel ----
// The agent runs inside the test process. One-sided timing oracles grant it a whole response timeout to act on a
// datagram that has arrived; on an oversubscribed machine the process as a whole can go unscheduled for longer than
// that. A sentinel goroutine measures by how much its own 2 ms sleeps overshoot; a timing verdict that coincides with
// a stall of the process is discarded (DISCARD), never reported.
type stallEv struct {
	at time.Time
	d  time.Duration
}

var stallLog struct {
	mu   sync.Mutex
	ev   []stallEv
	once sync.Once
}

func startStallWatch() {
	stallLog.once.Do(func() {
		go func() {
			for {
				t0 := time.Now()
				time.Sleep(2 * time.Millisecond)
				if over := time.Since(t0) - 2*time.Millisecond; over > 8*time.Millisecond {
					stallLog.mu.Lock()
					if len(stallLog.ev) >= 8192 {
						stallLog.ev = append(stallLog.ev[:0], stallLog.ev[4096:]...)
					}
					stallLog.ev = append(stallLog.ev, stallEv{t0, over})
					stallLog.mu.Unlock()
				}
			}
		}()
	})
}

// maxStall is the longest overshoot of the sentinel whose sleep overlapped [from, to].
func maxStall(from, to time.Time) time.Duration {
	stallLog.mu.Lock()
	defer stallLog.mu.Unlock()
	var m time.Duration
	for _, e := range stallLog.ev {
		if e.at.Before(to) && e.at.Add(e.d+2*time.Millisecond).After(from) && e.d > m {
			m = e.d
		}
	}
	return m
}

// discardReason is the part of a DISCARD message before the first semicolon.
func discardReason(err error) string {
	m := strings.TrimSpace(strings.TrimPrefix(err.Error(), "DISCARD:"))
	if i := strings.Index(m, ";"); i >= 0 {
		m = m[:i]
	}
	return m
}

var registerFns []func()

func registerAll() {
	for _, f := range registerFns {
		f()
	}
}

func since(t0 time.Time) float64 { return time.Since(t0).Seconds() }
