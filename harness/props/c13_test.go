package props

import (
	"encoding/binary"
	"fmt"
	"testing"
	"time"

	"github.com/omec-project/upf-epc/pfcpiface"
	"github.com/wmnsk/go-pfcp/message"
	"pgregory.net/rapid"

	"verif/harness/model"
	"verif/harness/sim"
)

// ---------- C13: downlink data notifications reach the control plane once per interval ----------

type c13Case struct {
	UP4    bool     `json:"up4,omitempty"` // reports arrive as P4Runtime digests carrying the UE address
	Kinds  []string `json:"kinds"`         // per session: "nocp" | "buff" | "forw" | "drop" | "nodl"
	Events []int    `json:"events"`        // sequence of targets: session index, -1 unknown F-SEID, -2 zero
	CPSEID []uint64 `json:"cpseid"`
	// NewCP (per session, 0 = none): after the establishments the control plane moves the session to another CP
	// F-SEID with a Session Modification Request - a bare one (only the F-SEID, TS 29.244 7.5.4) when NewCPBare,
	// else together with a restated Update FAR. Reports are then addressed with the new SEID.
	NewCP     []uint64 `json:"newcp,omitempty"`
	NewCPBare []bool   `json:"newcpbare,omitempty"`
	// Early (UP4, per session): the switch reports downlink data for the UE address before the session exists (the
	// address belongs to nobody yet: nothing may be sent); the session's own first report later must still go out
	Early []bool `json:"early,omitempty"`
	// Reuse: after the reports, these sessions are deleted and a new session is established with the same UE
	// address; downlink data for it is a first report of a new session
	Reuse []int `json:"reuse,omitempty"`
}

func genC13(t *rapid.T) c13Case {
	n := rapid.IntRange(1, scale(8, 20)).Draw(t, "nsess")
	var c c13Case
	c.UP4 = rapid.IntRange(0, 2).Draw(t, "up4") == 0
	for i := 0; i < n; i++ {
		k := rapid.SampledFrom([]string{"nocp", "nocp", "buff", "forw", "drop", "nodl"}).Draw(t, "kind")
		if c.UP4 && k == "nodl" {
			k = "drop" // the UP4 plug-in needs a downlink PDR in every session
		}
		c.Kinds = append(c.Kinds, k)
		cp := genSEID(t)
		for dupIn(c.CPSEID, cp) {
			cp += 0x101
		}
		c.CPSEID = append(c.CPSEID, cp)
	}
	for i := 0; i < n; i++ {
		var ncp uint64
		if rapid.IntRange(0, 3).Draw(t, "newcp") == 0 {
			ncp = genSEID(t)
			for ncp == 0 || dupIn(c.CPSEID, ncp) || dupIn(c.NewCP, ncp) {
				ncp += 0x10001
			}
		}
		c.NewCP = append(c.NewCP, ncp)
		c.NewCPBare = append(c.NewCPBare, rapid.Bool().Draw(t, "bare"))
		c.Early = append(c.Early, c.UP4 && rapid.IntRange(0, 3).Draw(t, "early") == 0)
	}
	for k := rapid.IntRange(0, 2).Draw(t, "nreuse"); k > 0; k-- {
		i := rapid.IntRange(0, n-1).Draw(t, "reuse")
		if !containsInt(c.Reuse, i) {
			c.Reuse = append(c.Reuse, i)
		}
	}
	ne := rapid.IntRange(1, scale(60, 200)).Draw(t, "nev")
	for i := 0; i < ne; i++ {
		tgt := rapid.IntRange(-2, n-1).Draw(t, "target")
		burst := rapid.IntRange(1, 4).Draw(t, "burst")
		for b := 0; b < burst; b++ {
			c.Events = append(c.Events, tgt)
		}
	}
	return c
}

func runC13(c c13Case, ev *Ev) error {
	r, err := newRig(RigOpts{Notify: !c.UP4, UP4: c.UP4})
	if err != nil {
		return fmt.Errorf("INFRA: %v", err)
	}
	if !c.UP4 {
		defer func() {
			r.Notify.Close()
		}()
		if !r.Notify.WaitConn(5 * time.Second) {
			return fmt.Errorf("INFRA: agent never connected to the notify socket")
		}
	}
	run, err := r.newRunner(1)
	if err != nil {
		return fmt.Errorf("INFRA: %v", err)
	}
	defer run.Close()
	if o := run.Exec(opAssoc(0, 1)); !o.Accepted {
		return fmt.Errorf("INFRA: association not accepted")
	}
	early := 0
	for i, k := range c.Kinds {
		ctx := sessCtx{idx: i, ue: fmt.Sprintf("10.62.%d.%d", i/250, i%250+1), gnb: "198.18.3.3", teidUL: uint32(0x9000 + i)}
		op := model.Op{Kind: "est", Peer: 0, Seq: uint32(10 + i), Sess: i, CPSEID: c.CPSEID[i]}
		op.PDRs = []model.PDR{{ID: 1, Prec: 10, Src: "access", FTEID: true, TEID: ctx.teidUL, N3: accessIP(), OHR: true, FAR: 1}}
		op.FARs = []model.FAR{{ID: 1, Action: model.ActFORW, HasFwd: true, DstIf: model.IfCore}}
		if k != "nodl" {
			op.PDRs = append(op.PDRs, model.PDR{ID: 7, Prec: 10, Src: "core", HasUE: true, UEIP: ctx.ue, FAR: 2})
			f := model.FAR{ID: 2}
			switch k {
			case "nocp":
				f.Action = model.ActBUFF | model.ActNOCP
			case "buff":
				f.Action = model.ActBUFF
			case "forw":
				f = model.FAR{ID: 2, Action: model.ActFORW, HasFwd: true, DstIf: model.IfAccess, HasOHC: true, TEID: 5, Peer: ctx.gnb}
			case "drop":
				f.Action = model.ActDROP
			}
			op.FARs = append(op.FARs, f)
		}
		if c.UP4 && i < len(c.Early) && c.Early[i] {
			if r.P4.InjectDigest(model.IP2U(ctx.ue)) == 0 {
				return fmt.Errorf("INFRA: no P4Runtime stream to send a digest on")
			}
			early++
			time.Sleep(30 * time.Millisecond) // let the agent act on it while the address is nobody's
		}
		if o := run.Exec(op); !o.Accepted {
			return fmt.Errorf("establishment %d (%s) not accepted: cause %d", i, k, o.Cause)
		}
	}
	moved := 0
	cpNow := append([]uint64(nil), c.CPSEID...)
	for i, ncp := range c.NewCP {
		if ncp == 0 || i >= len(c.Kinds) {
			continue
		}
		op := model.Op{Kind: "mod", Peer: 0, Seq: uint32(5000 + i), Sess: i, NewCP: true, NewCPSEID: ncp}
		if !c.NewCPBare[i] {
			for _, f := range run.Sess[i].FARs {
				if f.ID == 1 {
					f.HasFwd = true
					op.UpdFARs = []model.FAR{f}
				}
			}
		}
		if o := run.Exec(op); !o.Accepted {
			return fmt.Errorf("modification of session %d with a new CP F-SEID (bare=%v) not accepted: cause %d", i, c.NewCPBare[i], o.Cause)
		}
		cpNow[i] = ncp
		moved++
	}
	// expected: one report for each notifying session that is hit at least once
	want := map[int]bool{}
	hits := map[int]int{}
	for _, e := range c.Events {
		if e >= 0 && c.Kinds[e] == "nocp" {
			want[e] = true
		}
		if e >= 0 {
			hits[e]++
		}
	}
	p := run.Peers[0].P
	if early == 0 {
		p.Drain()
	} // else: a report provoked by an early digest that the agent saw late is a report of that session and is counted
	for _, e := range c.Events {
		if c.UP4 {
			// a digest carries the UE address the buffered packet was for
			ue := uint32(0)
			switch {
			case e >= 0:
				ue = model.IP2U(fmt.Sprintf("10.62.%d.%d", e/250, e%250+1))
			case e == -1:
				ue = model.IP2U("10.99.99.99")
			}
			if r.P4.InjectDigest(ue) == 0 {
				return fmt.Errorf("INFRA: no P4Runtime stream to send a digest on")
			}
			continue
		}
		var fseid uint64
		switch {
		case e >= 0:
			fseid = run.Sess[e].UPSEID
		case e == -1:
			fseid = 0x1234567812345678
		}
		b := make([]byte, 8)
		binary.LittleEndian.PutUint64(b, fseid)
		if err := r.Notify.Write(b); err != nil {
			return fmt.Errorf("INFRA: notify write: %v", err)
		}
	}
	// collect Session Report Requests
	bySEID := map[uint64]int{}
	for i := range c.Kinds {
		bySEID[run.Sess[i].UPSEID] = i
	}
	got := map[int]int{}
	seqSeen := map[uint32]bool{}
	deadline := time.Now().Add(5 * time.Second)
	quietSince := time.Now()
	for time.Now().Before(deadline) {
		d, err := p.RecvFresh(30 * time.Millisecond)
		if err != nil {
			if len(got) >= len(want) && time.Since(quietSince) > 60*time.Millisecond {
				break
			}
			continue
		}
		quietSince = time.Now()
		m, perr := message.Parse(d.B)
		if perr != nil {
			return fmt.Errorf("undecodable datagram from the agent: %x", d.B)
		}
		sr, ok := m.(*message.SessionReportRequest)
		if !ok {
			return fmt.Errorf("unexpected %s from the agent", m.MessageTypeName())
		}
		// which session? the header carries the CP SEID; find by Downlink Data Report + CP SEID
		idx := -1
		for i := range c.Kinds {
			if cpNow[i] == sr.SEID() {
				idx = i
			}
		}
		if idx < 0 {
			return fmt.Errorf("Session Report Request addressed to SEID %#x, which is no session's current CP SEID (current: %#x, at establishment: %#x)", sr.SEID(), cpNow, c.CPSEID)
		}
		if !sr.HasSEID() {
			return fmt.Errorf("Session Report Request without SEID in the header")
		}
		if sr.ReportType == nil {
			return fmt.Errorf("Session Report Request without Report Type")
		}
		if !sr.ReportType.HasDLDR() {
			return fmt.Errorf("Session Report Request: Report Type without DLDR")
		}
		if sr.DownlinkDataReport == nil {
			return fmt.Errorf("Session Report Request without Downlink Data Report")
		}
		id, err2 := sr.DownlinkDataReport.PDRID()
		if err2 != nil || id != 7 {
			return fmt.Errorf("Downlink Data Report names PDR %d (%v), want the session's downlink PDR 7", id, err2)
		}
		if seqSeen[sr.Sequence()] {
			return fmt.Errorf("Session Report Request reuses sequence number %d", sr.Sequence())
		}
		seqSeen[sr.Sequence()] = true
		got[idx]++
	}
	for i, k := range c.Kinds {
		switch {
		case want[i] && got[i] == 0:
			return fmt.Errorf("session %d (%s, F-SEID %#x, %d datapath reports): the first report was suppressed - no Session Report Request arrived", i, k, run.Sess[i].UPSEID, hits[i])
		case want[i] && got[i] > 1:
			return fmt.Errorf("session %d (%s): %d Session Report Requests within one notification interval", i, k, got[i])
		case !want[i] && got[i] == 1 && k == "nocp" && c.UP4 && i < len(c.Early) && c.Early[i]:
			// the early digest was acted on only after the session had been established: a legitimate first report
		case !want[i] && got[i] > 0:
			return fmt.Errorf("session %d (%s): Session Report Request sent although its downlink rule does not ask for notification (or no report came in)", i, k)
		}
	}
	// a new session on the UE address of a deleted one
	reused := 0
	for j, i := range c.Reuse {
		if i >= len(c.Kinds) || c.Kinds[i] != "nocp" {
			continue
		}
		if o := run.Exec(model.Op{Kind: "del", Peer: 0, Seq: uint32(6000 + j), Sess: i}); !o.Accepted {
			return fmt.Errorf("deletion of session %d not accepted (cause %d)", i, o.Cause)
		}
		ni := len(c.Kinds) + j
		ue := fmt.Sprintf("10.62.%d.%d", i/250, i%250+1)
		ncp := uint64(0x7ab00000 + j)
		op := model.Op{Kind: "est", Peer: 0, Seq: uint32(6100 + j), Sess: ni, CPSEID: ncp}
		op.PDRs = []model.PDR{{ID: 1, Prec: 10, Src: "access", FTEID: true, TEID: uint32(0xa000 + ni), N3: accessIP(), OHR: true, FAR: 1},
			{ID: 7, Prec: 10, Src: "core", HasUE: true, UEIP: ue, FAR: 2}}
		op.FARs = []model.FAR{{ID: 1, Action: model.ActFORW, HasFwd: true, DstIf: model.IfCore}, {ID: 2, Action: model.ActBUFF | model.ActNOCP}}
		if o := run.Exec(op); !o.Accepted {
			return fmt.Errorf("establishment of a new session on the UE address of deleted session %d not accepted (cause %d)", i, o.Cause)
		}
		if c.UP4 {
			if r.P4.InjectDigest(model.IP2U(ue)) == 0 {
				return fmt.Errorf("INFRA: no P4Runtime stream to send a digest on")
			}
		} else {
			b := make([]byte, 8)
			binary.LittleEndian.PutUint64(b, run.Sess[ni].UPSEID)
			if err := r.Notify.Write(b); err != nil {
				return fmt.Errorf("INFRA: notify write: %v", err)
			}
		}
		ok := false
		for deadline := time.Now().Add(5 * time.Second); !ok && time.Now().Before(deadline); {
			d, err := p.RecvFresh(50 * time.Millisecond)
			if err != nil {
				continue
			}
			m, perr := message.Parse(d.B)
			if perr != nil {
				return fmt.Errorf("undecodable datagram from the agent: %x", d.B)
			}
			sr, isSR := m.(*message.SessionReportRequest)
			if !isSR {
				return fmt.Errorf("unexpected %s from the agent", m.MessageTypeName())
			}
			if sr.SEID() != ncp {
				return fmt.Errorf("Session Report Request addressed to SEID %#x after downlink data for the new session on UE %s, want its CP SEID %#x", sr.SEID(), ue, ncp)
			}
			ok = true
		}
		if !ok {
			return fmt.Errorf("new session on UE address %s (reused from deleted session %d, which had %d notification(s)): its first report was suppressed - no Session Report Request arrived", ue, i, got[i])
		}
		reused++
	}
	if reused > 0 {
		ev.Label("ue-address-reused")
	}
	if early > 0 {
		ev.Label("digest-before-session")
	}
	kinds := map[string]bool{}
	multi := false
	for i, k := range c.Kinds {
		if hits[i] > 0 {
			kinds[k] = true
		}
		if k == "nocp" && hits[i] >= 2 {
			multi = true
		}
	}
	ev.Label(fmt.Sprintf("up4=%v", c.UP4))
	if moved > 0 {
		ev.Label("cp-fseid-changed")
	}
	ev.Case(c, len(kinds) >= 3 && multi, len(c.Events))
	return nil
}

func containsInt(l []int, v int) bool {
	for _, x := range l {
		if x == v {
			return true
		}
	}
	return false
}

func dupIn(cp []uint64, v uint64) bool {
	for _, x := range cp {
		if x == v {
			return true
		}
	}
	return false
}

func TestC13(t *testing.T) {
	ev := newEv("C13")
	ev.Rule = "fresh agent per case on BESS (enable_notify_bess, harness unixpacket listener in place of notifyCP; 8-byte little-endian F-SEID reports) or UP4 (every third case; P4Runtime digests carrying UE addresses on the harness switch's stream), 1-20 sessions of kinds {BUFF|NOCP, BUFF, FORW, DROP, no downlink PDR}, a generated sequence of reports in bursts over known, unknown and zero F-SEIDs / UE addresses; the Session Report Requests at the peer socket are decoded and counted per session; non-trivial = reports for >=3 kinds of sessions and >=2 reports for one notifying session; distinct by case"
	ev.Assume = []string{"one association, as the statement says", "the hard-coded 20 s interval is not crossed in the wire unit; interval expiry is exercised at unit level with a 60 ms interval"}
	runProp(t, ev, "wire", true, genC13, runC13)
}

// ---- unit level: the notifier with a short interval ----

type c13Unit struct {
	Calls []c13Call `json:"calls"`
}
type c13Call struct {
	F   uint64 `json:"f"`
	Gap int    `json:"gap_us"` // sleep before the call
}

func runC13Unit(c c13Unit, ev *Ev) error {
	const interval = 60 * time.Millisecond
	ch := make(chan uint64, 4096)
	n := pfcpiface.NewDownlinkDataNotifier(ch, interval)
	type rec struct{ before, after time.Time }
	lastFwd := map[uint64]rec{}
	fwdCount, suppressed, passedAgain := 0, 0, 0
	for i, call := range c.Calls {
		if call.Gap > 0 {
			time.Sleep(time.Duration(call.Gap) * time.Microsecond)
		}
		b := time.Now()
		n.Notify(call.F)
		a := time.Now()
		forwarded := false
		select {
		case f := <-ch:
			if f != call.F {
				return fmt.Errorf("call %d: forwarded F-SEID %#x, want %#x", i, f, call.F)
			}
			forwarded = true
		default:
		}
		select {
		case <-ch:
			return fmt.Errorf("call %d: one report forwarded two notifications", i)
		default:
		}
		last, seen := lastFwd[call.F]
		switch {
		case !seen:
			if !forwarded {
				return fmt.Errorf("call %d: first report for F-SEID %#x suppressed", i, call.F)
			}
		case forwarded:
			// two forwarded notifications for one F-SEID: after2 - before1 >= interval whatever the scheduling
			if a.Sub(last.before) < interval {
				return fmt.Errorf("call %d: second notification for F-SEID %#x forwarded %v after the previous one (interval %v)", i, call.F, a.Sub(last.before), interval)
			}
			passedAgain++
		default:
			// suppressed: legitimate only if the previous forwarded one may be younger than the interval
			if b.Sub(last.after) >= interval {
				return fmt.Errorf("call %d: report for F-SEID %#x suppressed although the last notification is %v old (interval %v)", i, call.F, b.Sub(last.after), interval)
			}
			suppressed++
		}
		if forwarded {
			lastFwd[call.F] = rec{b, a}
			fwdCount++
		}
	}
	ev.Case(c, suppressed >= 1 && passedAgain >= 1, len(c.Calls))
	return nil
}

func TestC13Unit(t *testing.T) {
	ev := newEv("C13")
	ev.Rule = "NewDownlinkDataNotifier with a 60 ms interval and generated call times over 1-4 F-SEIDs; each Notify call is bracketed by harness timestamps; non-trivial = a sequence with at least one suppressed report and one notification forwarded again after the interval"
	ev.Assume = []string{"one-sided timing: forwarded pairs satisfy after2-before1 >= interval, suppression is legitimate unless before-after_last >= interval"}
	runProp(t, ev, "unit", false, func(rt *rapid.T) c13Unit {
		var c c13Unit
		n := rapid.IntRange(2, 14).Draw(rt, "n")
		for i := 0; i < n; i++ {
			gap := rapid.SampledFrom([]int{0, 0, 100, 5000, 20000, 45000, 59000, 61000, 70000, 130000}).Draw(rt, "gap")
			c.Calls = append(c.Calls, c13Call{F: uint64(rapid.IntRange(1, 4).Draw(rt, "f")), Gap: gap})
		}
		return c
	}, runC13Unit)
}

func init() {
	registerFns = append(registerFns, func() {
		registerReplay("C13", "wire", runC13)
		registerReplay("C13", "unit", runC13Unit)
	})
}

// ---- a burst of first reports for more sessions than the report queue holds ----

type c13Flood struct {
	N     int  `json:"n"`     // notifying sessions, each reported once in one burst
	Twice bool `json:"twice"` // every report is sent twice back to back (the second one is within the interval)
}

func runC13Flood(c c13Flood, ev *Ev) error {
	r, err := newRig(RigOpts{Notify: true})
	if err != nil {
		return fmt.Errorf("INFRA: %v", err)
	}
	defer r.Notify.Close()
	if !r.Notify.WaitConn(5 * time.Second) {
		return fmt.Errorf("INFRA: agent never connected to the notify socket")
	}
	run, err := r.newRunner(1)
	if err != nil {
		return fmt.Errorf("INFRA: %v", err)
	}
	defer run.Close()
	if o := run.Exec(opAssoc(0, 1)); !o.Accepted {
		return fmt.Errorf("INFRA: association not accepted")
	}
	p := run.Peers[0].P
	for i := 0; i < c.N; i++ {
		op := model.Op{Kind: "est", Peer: 0, Seq: uint32(10 + i), Sess: i, CPSEID: uint64(0x50000 + i)}
		op.PDRs = []model.PDR{{ID: 1, Prec: 10, Src: "access", FTEID: true, TEID: uint32(0x100000 + i), N3: accessIP(), OHR: true, FAR: 1},
			{ID: 7, Prec: 10, Src: "core", HasUE: true, UEIP: fmt.Sprintf("10.%d.%d.%d", 70+i/62500, (i/250)%250, i%250+1), FAR: 2}}
		op.FARs = []model.FAR{{ID: 1, Action: model.ActFORW, HasFwd: true, DstIf: model.IfCore}, {ID: 2, Action: model.ActBUFF | model.ActNOCP}}
		// no probe between the establishments: only the response matters here
		if err := p.Send(model.Establishment(op.Seq, run.Peers[0].NodeID, op.CPSEID, run.Peers[0].IP, op)); err != nil {
			return fmt.Errorf("INFRA: establishment %d: %v", i, err)
		}
		d, err := p.RecvFresh(10 * time.Second)
		if err != nil {
			return fmt.Errorf("INFRA: establishment %d: %v", i, err)
		}
		m, perr := message.Parse(d.B)
		er, ok := m.(*message.SessionEstablishmentResponse)
		if perr != nil || !ok || er.UPFSEID == nil {
			return fmt.Errorf("INFRA: establishment %d: unexpected response", i)
		}
		f, ferr := er.UPFSEID.FSEID()
		if ferr != nil {
			return fmt.Errorf("INFRA: establishment %d: %v", i, ferr)
		}
		run.Sess[i] = &sim.SessState{Idx: i, Peer: 0, CPSEID: op.CPSEID, UPSEID: f.SEID, Live: true}
	}
	p.Drain()
	byCP := map[uint64]int{}
	for i := 0; i < c.N; i++ {
		byCP[run.Sess[i].CPSEID] = i
	}
	got := make([]int, c.N)
	done := make(chan error, 1)
	go func() {
		n := 0
		deadline := time.Now().Add(30 * time.Second)
		quiet := time.Now()
		for time.Now().Before(deadline) {
			d, err := p.RecvFresh(50 * time.Millisecond)
			if err != nil {
				if n >= c.N && time.Since(quiet) > 300*time.Millisecond {
					break
				}
				if time.Since(quiet) > 3*time.Second {
					break // nothing for three seconds: whatever is missing will not come
				}
				continue
			}
			quiet = time.Now()
			m, perr := message.Parse(d.B)
			sr, ok := m.(*message.SessionReportRequest)
			if perr != nil || !ok {
				done <- fmt.Errorf("unexpected datagram from the agent during the burst: %x", d.B)
				return
			}
			i, known := byCP[sr.SEID()]
			if !known {
				done <- fmt.Errorf("Session Report Request addressed to SEID %#x, which is no session's CP SEID", sr.SEID())
				return
			}
			got[i]++
			n++
		}
		done <- nil
	}()
	b := make([]byte, 8)
	for i := 0; i < c.N; i++ {
		binary.LittleEndian.PutUint64(b, run.Sess[i].UPSEID)
		reps := 1
		if c.Twice {
			reps = 2
		}
		for k := 0; k < reps; k++ {
			if err := r.Notify.Write(b); err != nil {
				return fmt.Errorf("INFRA: notify write: %v", err)
			}
		}
	}
	if err := <-done; err != nil {
		return err
	}
	missing, dup, firstMissing := 0, 0, -1
	for i, g := range got {
		if g == 0 {
			missing++
			if firstMissing < 0 {
				firstMissing = i
			}
		}
		if g > 1 {
			dup++
		}
	}
	if missing > 0 {
		return fmt.Errorf("a burst of first reports for %d sessions: %d sessions were never notified (first: session %d) - a first report must never be suppressed", c.N, missing, firstMissing)
	}
	if dup > 0 {
		return fmt.Errorf("a burst of reports for %d sessions: %d sessions were notified more than once within the interval", c.N, dup)
	}
	ev.Label(fmt.Sprintf("flood/twice=%v", c.Twice))
	ev.Case(c, c.N > 1024, c.N)
	return nil
}

func TestC13Flood(t *testing.T) {
	ev := newEv("C13")
	ev.Rule = "fresh BESS agent per case with 3000-6000 sessions whose downlink rule asks for notification; one burst of datapath reports, one (or two back to back) per session, written as fast as the notify socket takes them - more first reports than the agent's report queue (1024) holds; every session must be notified exactly once; non-trivial = more than 1024 sessions"
	runProp(t, ev, "flood", true, func(rt *rapid.T) c13Flood {
		return c13Flood{N: rapid.IntRange(3000, 6000).Draw(rt, "n"), Twice: rapid.Bool().Draw(rt, "twice")}
	}, runC13Flood)
}

func init() {
	registerFns = append(registerFns, func() { registerReplay("C13", "flood", runC13Flood) })
}
