package rig

import "time"

// P4d is the harness P4Runtime server (implemented in p4d_impl.go later).
type P4d struct{ Addr string }

func NewP4d(addr string) (*P4d, error)            { return &P4d{Addr: addr}, nil }
func (p *P4d) LogLen() int                        { return 0 }
func (p *P4d) WaitQuiet(max time.Duration) bool  { return true }
func (p *P4d) WaitReady(max time.Duration) bool  { return true }
