package rig

import (
	"context"
	"fmt"
	"net"
	"os"
	"sort"
	"strings"
	"sync"
	"sync/atomic"
	"time"

	//nolint:staticcheck // the P4Runtime stubs are golang/protobuf v1 messages
	"github.com/golang/protobuf/proto"
	p4cfg "github.com/p4lang/p4runtime/go/p4/config/v1"
	p4 "github.com/p4lang/p4runtime/go/p4/v1"
	"google.golang.org/genproto/googleapis/rpc/code"
	gstatus "google.golang.org/genproto/googleapis/rpc/status"
	"google.golang.org/grpc"
	"google.golang.org/grpc/codes"
	"google.golang.org/grpc/status"
	"google.golang.org/protobuf/protoadapt"
)

// PField is one decoded match field.
type PField struct {
	Name      string
	Kind      string // EXACT | LPM | TERNARY | RANGE
	Value     uint64
	Mask      uint64
	PrefixLen int32
	Low, High uint64
}

// PEntry is one decoded table entry.
type PEntry struct {
	Table    string
	TableID  uint32
	Match    map[string]PField
	Action   string
	Params   map[string]uint64
	Priority int32
	Key      string
	Seq      int64
}

// PMeter is the configuration of one meter cell (nil config = default/reset).
type PMeter struct {
	Meter string
	Index int64
	Cfg   *p4.MeterConfig
	Seq   int64
}

// PWrite is one logged Write RPC.
type PWrite struct {
	Seq     int64
	N       int
	Kinds   []string // "INSERT table", "MODIFY meter", ...
	Failed  string   // injected failure, if any
	Errors  []int32  // per-update canonical codes (all 0 when OK)
	Updates []*p4.Update
}

// PktOut is one PacketOut received on the stream.
type PktOut struct {
	B   []byte
	Seq int64
}

// P4d is an in-process P4Runtime server with P4Runtime write semantics, a fault plan and an
// always-on P4Info conformance validator.
type P4d struct {
	p4.UnimplementedP4RuntimeServer

	Addr string
	lis  net.Listener
	srv  *grpc.Server
	Info *p4cfg.P4Info

	mu       sync.Mutex
	tables   map[uint32]map[string]*PEntry
	meters   map[[2]int64]*PMeter // (meter id, index)
	counters map[[2]int64]int64   // (counter id, index) -> number of writes
	log      []PWrite
	pkts     []PktOut
	Invalid  []string // P4Info conformance violations (C16)
	streams  []p4.P4Runtime_StreamChannelServer
	// elect: the election id each open stream arbitrated with. As on a real P4Runtime target a Write is accepted only
	// from the primary - the client whose election id is the highest among the open streams (P4Runtime 1.3, 5.3/5.4);
	// after a restart of the switch nobody is primary until a controller opens a stream and arbitrates again.
	elect  map[p4.P4Runtime_StreamChannelServer][2]uint64
	Denied int // writes refused with PERMISSION_DENIED

	// fault plan: fail the Write RPC whose ordinal (counted from Arm) equals FailAt
	writeN   int
	fired      int
	firedKinds []string
	FailAt   map[int]string // ordinal -> "UNAVAILABLE" | "INVALID_ARGUMENT" | "RESOURCE_EXHAUSTED" | "NOT_FOUND"
	Delay    func() time.Duration
	inflight atomic.Int64
	maxInfl  atomic.Int64
	conns    atomic.Int64

	tblByID   map[uint32]*p4cfg.Table
	actByID   map[uint32]*p4cfg.Action
	meterByID map[uint32]*p4cfg.Meter
	ctrByID   map[uint32]*p4cfg.Counter
}

// LoadP4Info parses the P4Info text file shipped with the repository.
func LoadP4Info(path string) (*p4cfg.P4Info, error) {
	b, err := os.ReadFile(path)
	if err != nil {
		return nil, err
	}
	info := &p4cfg.P4Info{}
	if err := proto.UnmarshalText(string(b), info); err != nil {
		return nil, err
	}
	return info, nil
}

// P4InfoPath is where the shipped P4Info lives.
func P4InfoPath() string {
	repo := os.Getenv("VERIF_REPO")
	if repo == "" {
		repo = "/repo"
	}
	return repo + "/conf/p4/bin/p4info.txt"
}

// NewP4d starts a server on addr.
func NewP4d(addr string) (*P4d, error) { return NewP4dSized(addr, 0, 0) }

// NewP4dSized starts a server whose P4Info declares smaller meter / counter arrays (0 = as shipped),
// so that ID pools can be exhausted quickly.
func NewP4dSized(addr string, meterSize, counterSize int64) (*P4d, error) {
	info, err := LoadP4Info(P4InfoPath())
	if err != nil {
		return nil, fmt.Errorf("p4info: %w", err)
	}
	if meterSize > 0 {
		for _, m := range info.Meters {
			if strings.HasSuffix(m.Preamble.Name, "app_meter") || strings.HasSuffix(m.Preamble.Name, "session_meter") {
				m.Size = meterSize
			}
		}
	}
	if counterSize > 0 {
		for _, c := range info.Counters {
			c.Size = counterSize
		}
	}
	lis, err := net.Listen("tcp", addr)
	if err != nil {
		return nil, err
	}
	d := &P4d{lis: lis, Addr: lis.Addr().String(), Info: info, FailAt: map[int]string{}}
	d.index()
	d.resetState()
	d.serve()
	return d, nil
}

func (d *P4d) index() {
	d.tblByID, d.actByID, d.meterByID, d.ctrByID = map[uint32]*p4cfg.Table{}, map[uint32]*p4cfg.Action{}, map[uint32]*p4cfg.Meter{}, map[uint32]*p4cfg.Counter{}
	for _, t := range d.Info.Tables {
		d.tblByID[t.Preamble.Id] = t
	}
	for _, a := range d.Info.Actions {
		d.actByID[a.Preamble.Id] = a
	}
	for _, m := range d.Info.Meters {
		d.meterByID[m.Preamble.Id] = m
	}
	for _, c := range d.Info.Counters {
		d.ctrByID[c.Preamble.Id] = c
	}
}

func (d *P4d) resetState() {
	d.tables = map[uint32]map[string]*PEntry{}
	d.meters = map[[2]int64]*PMeter{}
	d.counters = map[[2]int64]int64{}
}

func (d *P4d) serve() {
	d.srv = grpc.NewServer()
	p4.RegisterP4RuntimeServer(d.srv, d)
	go d.srv.Serve(d.lis) //nolint:errcheck
}

// Stop stops serving but keeps the state (a switch that went away).
func (d *P4d) Stop() {
	d.srv.Stop()
	d.mu.Lock()
	d.streams = nil
	d.elect = nil
	d.mu.Unlock()
}

// Restart serves again on the same address with the same state.
func (d *P4d) Restart() error {
	var lis net.Listener
	var err error
	for i := 0; i < 100; i++ {
		lis, err = net.Listen("tcp", d.Addr)
		if err == nil {
			break
		}
		time.Sleep(20 * time.Millisecond)
	}
	if err != nil {
		return err
	}
	d.lis = lis
	d.serve()
	return nil
}

func (d *P4d) Close() { d.srv.Stop() }

// ---- P4Runtime service ----

func (d *P4d) Capabilities(context.Context, *p4.CapabilitiesRequest) (*p4.CapabilitiesResponse, error) {
	return &p4.CapabilitiesResponse{P4RuntimeApiVersion: "1.3.0"}, nil
}

func (d *P4d) GetForwardingPipelineConfig(context.Context, *p4.GetForwardingPipelineConfigRequest) (*p4.GetForwardingPipelineConfigResponse, error) {
	return &p4.GetForwardingPipelineConfigResponse{Config: &p4.ForwardingPipelineConfig{P4Info: d.Info, Cookie: &p4.ForwardingPipelineConfig_Cookie{Cookie: 1}}}, nil
}

func (d *P4d) SetForwardingPipelineConfig(context.Context, *p4.SetForwardingPipelineConfigRequest) (*p4.SetForwardingPipelineConfigResponse, error) {
	return &p4.SetForwardingPipelineConfigResponse{}, nil
}

func (d *P4d) StreamChannel(s p4.P4Runtime_StreamChannelServer) error {
	d.mu.Lock()
	d.streams = append(d.streams, s)
	d.mu.Unlock()
	d.conns.Add(1)
	defer d.conns.Add(-1)
	for {
		req, err := s.Recv()
		if err != nil {
			d.mu.Lock()
			for i, x := range d.streams {
				if x == s {
					d.streams = append(d.streams[:i], d.streams[i+1:]...)
					break
				}
			}
			delete(d.elect, s)
			d.mu.Unlock()
			return nil
		}
		switch u := req.Update.(type) {
		case *p4.StreamMessageRequest_Arbitration:
			d.mu.Lock()
			if d.elect == nil {
				d.elect = map[p4.P4Runtime_StreamChannelServer][2]uint64{}
			}
			d.elect[s] = [2]uint64{u.Arbitration.GetElectionId().GetHigh(), u.Arbitration.GetElectionId().GetLow()}
			d.mu.Unlock()
			_ = s.Send(&p4.StreamMessageResponse{Update: &p4.StreamMessageResponse_Arbitration{Arbitration: &p4.MasterArbitrationUpdate{
				DeviceId: u.Arbitration.DeviceId, ElectionId: u.Arbitration.ElectionId, Status: &gstatus.Status{Code: int32(code.Code_OK)}}}})
		case *p4.StreamMessageRequest_Packet:
			d.mu.Lock()
			d.pkts = append(d.pkts, PktOut{B: append([]byte(nil), u.Packet.Payload...), Seq: Events.Add(1)})
			d.mu.Unlock()
		}
	}
}

// isPrimary (d.mu held): the election id is the highest one an open stream has arbitrated with.
func (d *P4d) isPrimary(e *p4.Uint128) bool {
	var best [2]uint64
	found := false
	for _, x := range d.elect {
		if !found || x[0] > best[0] || (x[0] == best[0] && x[1] > best[1]) {
			best, found = x, true
		}
	}
	return found && e != nil && e.High == best[0] && e.Low == best[1]
}

// InjectDigest sends a digest carrying a UE address to every open stream.
func (d *P4d) InjectDigest(ue uint32) int {
	d.mu.Lock()
	ss := append([]p4.P4Runtime_StreamChannelServer(nil), d.streams...)
	d.mu.Unlock()
	b := []byte{byte(ue >> 24), byte(ue >> 16), byte(ue >> 8), byte(ue)}
	n := 0
	for _, s := range ss {
		if s.Send(&p4.StreamMessageResponse{Update: &p4.StreamMessageResponse_Digest{Digest: &p4.DigestList{
			Data: []*p4.P4Data{{Data: &p4.P4Data_Bitstring{Bitstring: b}}}}}}) == nil {
			n++
		}
	}
	return n
}

func be(b []byte) uint64 {
	var v uint64
	for _, x := range b {
		v = v<<8 | uint64(x)
	}
	return v
}

func fits(b []byte, width int32) bool {
	// leading zero bytes are allowed; the value must fit the declared width
	i := 0
	for i < len(b) && b[i] == 0 {
		i++
	}
	sig := b[i:]
	if len(sig) == 0 {
		return true
	}
	bits := (len(sig)-1)*8 + bitsLen(sig[0])
	return int32(bits) <= width
}

func bitsLen(x byte) int {
	n := 0
	for x != 0 {
		n++
		x >>= 1
	}
	return n
}

func shortName(s string) string {
	if i := strings.LastIndex(s, "."); i >= 0 {
		return s[i+1:]
	}
	return s
}

// decode validates a table entry against the P4Info (recording violations) and decodes it.
func (d *P4d) decode(te *p4.TableEntry, forWrite bool) (*PEntry, []string) {
	var bad []string
	t := d.tblByID[te.TableId]
	if t == nil {
		return nil, []string{fmt.Sprintf("table id %d does not exist in the P4Info", te.TableId)}
	}
	e := &PEntry{Table: shortName(t.Preamble.Name), TableID: te.TableId, Match: map[string]PField{}, Params: map[string]uint64{}, Priority: te.Priority}
	needPrio := false
	fdef := map[uint32]*p4cfg.MatchField{}
	for _, f := range t.MatchFields {
		fdef[f.Id] = f
		if f.GetMatchType() == p4cfg.MatchField_TERNARY || f.GetMatchType() == p4cfg.MatchField_RANGE {
			needPrio = true
		}
	}
	var keyParts []string
	for _, m := range te.Match {
		f := fdef[m.FieldId]
		if f == nil {
			bad = append(bad, fmt.Sprintf("table %s: match field id %d does not belong to it", e.Table, m.FieldId))
			continue
		}
		pf := PField{Name: f.Name}
		w := f.Bitwidth
		switch mt := m.FieldMatchType.(type) {
		case *p4.FieldMatch_Exact_:
			pf.Kind = "EXACT"
			if f.GetMatchType() != p4cfg.MatchField_EXACT {
				bad = append(bad, fmt.Sprintf("table %s field %s: EXACT match on a %v field", e.Table, f.Name, f.GetMatchType()))
			}
			if !fits(mt.Exact.Value, w) {
				bad = append(bad, fmt.Sprintf("table %s field %s: value %x does not fit %d bits", e.Table, f.Name, mt.Exact.Value, w))
			}
			pf.Value = be(mt.Exact.Value)
			keyParts = append(keyParts, fmt.Sprintf("%d=e%d", f.Id, pf.Value))
		case *p4.FieldMatch_Lpm:
			pf.Kind = "LPM"
			if f.GetMatchType() != p4cfg.MatchField_LPM {
				bad = append(bad, fmt.Sprintf("table %s field %s: LPM match on a %v field", e.Table, f.Name, f.GetMatchType()))
			}
			if !fits(mt.Lpm.Value, w) || mt.Lpm.PrefixLen < 0 || mt.Lpm.PrefixLen > w {
				bad = append(bad, fmt.Sprintf("table %s field %s: LPM %x/%d does not fit %d bits", e.Table, f.Name, mt.Lpm.Value, mt.Lpm.PrefixLen, w))
			}
			pf.Value, pf.PrefixLen = be(mt.Lpm.Value), mt.Lpm.PrefixLen
			if w <= 64 && mt.Lpm.PrefixLen >= 0 && mt.Lpm.PrefixLen <= w {
				if rest := be(mt.Lpm.Value) & (uint64(1)<<uint(w-mt.Lpm.PrefixLen) - 1); rest != 0 {
					// P4Runtime 9.1.1: "bits of the value that are not covered by the prefix must be zero", else the
					// target rejects the entry with INVALID_ARGUMENT
					bad = append(bad, fmt.Sprintf("table %s field %s: LPM value %x has bits set behind its prefix length %d", e.Table, f.Name, mt.Lpm.Value, mt.Lpm.PrefixLen))
				}
			}
			keyParts = append(keyParts, fmt.Sprintf("%d=l%d/%d", f.Id, pf.Value, pf.PrefixLen))
		case *p4.FieldMatch_Ternary_:
			pf.Kind = "TERNARY"
			if f.GetMatchType() != p4cfg.MatchField_TERNARY {
				bad = append(bad, fmt.Sprintf("table %s field %s: TERNARY match on a %v field", e.Table, f.Name, f.GetMatchType()))
			}
			if !fits(mt.Ternary.Value, w) || !fits(mt.Ternary.Mask, w) {
				bad = append(bad, fmt.Sprintf("table %s field %s: ternary %x&%x does not fit %d bits", e.Table, f.Name, mt.Ternary.Value, mt.Ternary.Mask, w))
			}
			pf.Value, pf.Mask = be(mt.Ternary.Value), be(mt.Ternary.Mask)
			if w <= 64 && be(mt.Ternary.Value)&^be(mt.Ternary.Mask) != 0 {
				// P4Runtime 9.1.1: value bits outside the mask must be zero (INVALID_ARGUMENT otherwise)
				bad = append(bad, fmt.Sprintf("table %s field %s: ternary value %x has bits set outside its mask %x", e.Table, f.Name, mt.Ternary.Value, mt.Ternary.Mask))
			}
			keyParts = append(keyParts, fmt.Sprintf("%d=t%d&%d", f.Id, pf.Value, pf.Mask))
		case *p4.FieldMatch_Range_:
			pf.Kind = "RANGE"
			if f.GetMatchType() != p4cfg.MatchField_RANGE {
				bad = append(bad, fmt.Sprintf("table %s field %s: RANGE match on a %v field", e.Table, f.Name, f.GetMatchType()))
			}
			if !fits(mt.Range.Low, w) || !fits(mt.Range.High, w) {
				bad = append(bad, fmt.Sprintf("table %s field %s: range %x-%x does not fit %d bits", e.Table, f.Name, mt.Range.Low, mt.Range.High, w))
			}
			pf.Low, pf.High = be(mt.Range.Low), be(mt.Range.High)
			keyParts = append(keyParts, fmt.Sprintf("%d=r%d-%d", f.Id, pf.Low, pf.High))
		default:
			bad = append(bad, fmt.Sprintf("table %s field %s: unsupported match kind", e.Table, f.Name))
		}
		if _, dup := e.Match[f.Name]; dup {
			bad = append(bad, fmt.Sprintf("table %s: match field %s given twice", e.Table, f.Name))
		}
		e.Match[f.Name] = pf
	}
	sort.Strings(keyParts)
	e.Key = fmt.Sprintf("%s|p%d", strings.Join(keyParts, ","), te.Priority)
	if forWrite && needPrio && te.Priority == 0 {
		bad = append(bad, fmt.Sprintf("table %s has ternary/range fields but the entry has priority 0 (match %s)", e.Table, e.Key))
	}
	if te.Action != nil {
		if a := te.Action.GetAction(); a != nil {
			ad := d.actByID[a.ActionId]
			if ad == nil {
				bad = append(bad, fmt.Sprintf("table %s: action id %d does not exist", e.Table, a.ActionId))
			} else {
				e.Action = shortName(ad.Preamble.Name)
				allowed := false
				for _, r := range t.ActionRefs {
					allowed = allowed || r.Id == a.ActionId
				}
				if !allowed {
					bad = append(bad, fmt.Sprintf("table %s does not allow action %s", e.Table, e.Action))
				}
				pdef := map[uint32]*p4cfg.Action_Param{}
				for _, p := range ad.Params {
					pdef[p.Id] = p
				}
				seen := map[uint32]bool{}
				for _, p := range a.Params {
					pd := pdef[p.ParamId]
					if pd == nil {
						bad = append(bad, fmt.Sprintf("action %s: parameter id %d is not declared", e.Action, p.ParamId))
						continue
					}
					if seen[p.ParamId] {
						bad = append(bad, fmt.Sprintf("action %s: parameter %s given twice", e.Action, pd.Name))
					}
					seen[p.ParamId] = true
					if !fits(p.Value, pd.Bitwidth) {
						bad = append(bad, fmt.Sprintf("action %s parameter %s: value %x does not fit %d bits", e.Action, pd.Name, p.Value, pd.Bitwidth))
					}
					e.Params[pd.Name] = be(p.Value)
				}
				for id, pd := range pdef {
					if !seen[id] {
						bad = append(bad, fmt.Sprintf("action %s: declared parameter %s is missing", e.Action, pd.Name))
					}
				}
			}
		}
	}
	return e, bad
}

func (d *P4d) track() func() {
	n := d.inflight.Add(1)
	for {
		m := d.maxInfl.Load()
		if n <= m || d.maxInfl.CompareAndSwap(m, n) {
			break
		}
	}
	return func() { d.inflight.Add(-1) }
}

// Write applies the updates with P4Runtime semantics (CONTINUE_ON_ERROR).
func (d *P4d) Write(ctx context.Context, req *p4.WriteRequest) (*p4.WriteResponse, error) {
	defer d.track()()
	d.mu.Lock()
	delay := d.Delay
	d.mu.Unlock()
	if delay != nil {
		if dl := delay(); dl > 0 {
			time.Sleep(dl)
		}
	}
	d.mu.Lock()
	defer d.mu.Unlock()
	// the arbitration travels on the stream and this request on its own: give an arbitration that is already on its
	// way (the agent does not wait for the answer to it) the time to be read before judging
	for i := 0; i < 300 && !d.isPrimary(req.GetElectionId()); i++ {
		d.mu.Unlock()
		time.Sleep(time.Millisecond)
		d.mu.Lock()
	}
	if !d.isPrimary(req.GetElectionId()) {
		d.Denied++
		return nil, status.Error(codes.PermissionDenied, "the sender is not the primary controller of this device")
	}
	d.writeN++
	w := PWrite{Seq: Events.Add(1), N: len(req.Updates), Updates: req.Updates}
	for _, u := range req.Updates {
		kind := u.Type.String()
		switch {
		case u.Entity.GetTableEntry() != nil:
			t := d.tblByID[u.Entity.GetTableEntry().TableId]
			if t != nil {
				kind += " " + shortName(t.Preamble.Name)
			} else {
				kind += " table?"
			}
		case u.Entity.GetMeterEntry() != nil:
			kind += " meter"
		case u.Entity.GetCounterEntry() != nil:
			kind += " counter"
		default:
			kind += " other"
		}
		w.Kinds = append(w.Kinds, kind)
	}
	if f, ok := d.FailAt[d.writeN]; ok {
		w.Failed = f
		d.fired++
		d.firedKinds = append(d.firedKinds, strings.Join(w.Kinds, ","))
		d.log = append(d.log, w)
		if f == "UNAVAILABLE" {
			return nil, status.Error(codes.Unavailable, "injected failure")
		}
		c := codes.InvalidArgument
		switch f {
		case "RESOURCE_EXHAUSTED":
			c = codes.ResourceExhausted
		case "NOT_FOUND":
			c = codes.NotFound
		}
		return nil, d.errStatus(len(req.Updates), func(int) codes.Code { return c })
	}
	errs := make([]codes.Code, len(req.Updates))
	anyErr := false
	for i, u := range req.Updates {
		errs[i] = d.apply(u, w.Seq)
		anyErr = anyErr || errs[i] != codes.OK
		w.Errors = append(w.Errors, int32(errs[i]))
	}
	d.log = append(d.log, w)
	if anyErr {
		return nil, d.errStatus(len(req.Updates), func(i int) codes.Code { return errs[i] })
	}
	return &p4.WriteResponse{}, nil
}

func (d *P4d) errStatus(n int, f func(i int) codes.Code) error {
	st := status.New(codes.Unknown, "write failed")
	var details []protoadapt.MessageV1
	for i := 0; i < n; i++ {
		c := f(i)
		details = append(details, &p4.Error{CanonicalCode: int32(c), Message: c.String()})
	}
	ds, err := st.WithDetails(details...)
	if err != nil {
		return st.Err()
	}
	return ds.Err()
}

func (d *P4d) apply(u *p4.Update, seq int64) codes.Code {
	switch {
	case u.Entity.GetTableEntry() != nil:
		te := u.Entity.GetTableEntry()
		e, bad := d.decode(te, u.Type != p4.Update_DELETE)
		d.Invalid = append(d.Invalid, bad...)
		if e == nil {
			return codes.InvalidArgument
		}
		e.Seq = seq
		tbl := d.tables[te.TableId]
		if tbl == nil {
			tbl = map[string]*PEntry{}
			d.tables[te.TableId] = tbl
		}
		_, exists := tbl[e.Key]
		switch u.Type {
		case p4.Update_INSERT:
			if exists {
				return codes.AlreadyExists
			}
			tbl[e.Key] = e
		case p4.Update_MODIFY:
			if !exists {
				return codes.NotFound
			}
			tbl[e.Key] = e
		case p4.Update_DELETE:
			if !exists {
				return codes.NotFound
			}
			delete(tbl, e.Key)
		default:
			return codes.InvalidArgument
		}
	case u.Entity.GetMeterEntry() != nil:
		me := u.Entity.GetMeterEntry()
		md := d.meterByID[me.MeterId]
		if md == nil {
			d.Invalid = append(d.Invalid, fmt.Sprintf("meter id %d does not exist in the P4Info", me.MeterId))
			return codes.InvalidArgument
		}
		if me.Index == nil || me.Index.Index < 0 || me.Index.Index >= md.Size {
			idx := int64(-1)
			if me.Index != nil {
				idx = me.Index.Index
			}
			d.Invalid = append(d.Invalid, fmt.Sprintf("meter %s: index %d outside the declared size %d", shortName(md.Preamble.Name), idx, md.Size))
			return codes.InvalidArgument
		}
		if u.Type != p4.Update_MODIFY {
			return codes.InvalidArgument
		}
		d.meters[[2]int64{int64(me.MeterId), me.Index.Index}] = &PMeter{Meter: shortName(md.Preamble.Name), Index: me.Index.Index, Cfg: me.Config, Seq: seq}
	case u.Entity.GetCounterEntry() != nil:
		ce := u.Entity.GetCounterEntry()
		cd := d.ctrByID[ce.CounterId]
		if cd == nil {
			d.Invalid = append(d.Invalid, fmt.Sprintf("counter id %d does not exist in the P4Info", ce.CounterId))
			return codes.InvalidArgument
		}
		if ce.Index == nil || ce.Index.Index < 0 || ce.Index.Index >= cd.Size {
			idx := int64(-1)
			if ce.Index != nil {
				idx = ce.Index.Index
			}
			d.Invalid = append(d.Invalid, fmt.Sprintf("counter %s: index %d outside the declared size %d", shortName(cd.Preamble.Name), idx, cd.Size))
			return codes.InvalidArgument
		}
		d.counters[[2]int64{int64(ce.CounterId), ce.Index.Index}]++
	default:
		return codes.Unimplemented
	}
	return codes.OK
}

// Read answers wildcard reads of table entries (what the agent's ClearTables uses).
func (d *P4d) Read(req *p4.ReadRequest, s p4.P4Runtime_ReadServer) error {
	defer d.track()()
	d.mu.Lock()
	var out []*p4.Entity
	for _, ent := range req.Entities {
		te := ent.GetTableEntry()
		if te == nil {
			continue
		}
		for id, tbl := range d.tables {
			if te.TableId != 0 && te.TableId != id {
				continue
			}
			keys := make([]string, 0, len(tbl))
			for k := range tbl {
				keys = append(keys, k)
			}
			sort.Strings(keys)
			for _, k := range keys {
				out = append(out, &p4.Entity{Entity: &p4.Entity_TableEntry{TableEntry: d.encode(tbl[k])}})
			}
		}
	}
	d.mu.Unlock()
	return s.Send(&p4.ReadResponse{Entities: out})
}

// encode rebuilds a wire entry from the stored raw update (kept in the write log).
func (d *P4d) encode(e *PEntry) *p4.TableEntry {
	for i := len(d.log) - 1; i >= 0; i-- {
		if d.log[i].Seq != e.Seq {
			continue
		}
		for _, u := range d.log[i].Updates {
			if te := u.Entity.GetTableEntry(); te != nil && te.TableId == e.TableID {
				if x, _ := d.decode(te, false); x != nil && x.Key == e.Key {
					return te
				}
			}
		}
	}
	// injected junk has no logged update: synthesise from the decoded form
	return e.raw()
}

var rawOf = map[*PEntry]*p4.TableEntry{}

func (e *PEntry) raw() *p4.TableEntry {
	if r, ok := rawOf[e]; ok {
		return r
	}
	return &p4.TableEntry{TableId: e.TableID, Priority: e.Priority}
}

// InjectRaw installs an entry directly (junk left behind by a previous incarnation).
func (d *P4d) InjectRaw(te *p4.TableEntry) {
	d.mu.Lock()
	defer d.mu.Unlock()
	e, _ := d.decode(te, false)
	if e == nil {
		return
	}
	rawOf[e] = te
	if d.tables[te.TableId] == nil {
		d.tables[te.TableId] = map[string]*PEntry{}
	}
	d.tables[te.TableId][e.Key] = e
}

// ---- observation ----

// PSnap is a copy of the switch state.
type PSnap struct {
	Tables map[string][]PEntry // by short table name, sorted by key
	Meters []PMeter            // only cells with a non-default configuration
}

// Snap returns the current state.
func (d *P4d) Snap() PSnap {
	d.mu.Lock()
	defer d.mu.Unlock()
	s := PSnap{Tables: map[string][]PEntry{}}
	for _, tbl := range d.tables {
		for _, e := range tbl {
			s.Tables[e.Table] = append(s.Tables[e.Table], *e)
		}
	}
	for k := range s.Tables {
		l := s.Tables[k]
		sort.Slice(l, func(i, j int) bool { return l[i].Key < l[j].Key })
	}
	for _, m := range d.meters {
		if m.Cfg != nil && (m.Cfg.Cir != 0 || m.Cfg.Pir != 0 || m.Cfg.Cburst != 0 || m.Cfg.Pburst != 0) {
			s.Meters = append(s.Meters, *m)
		}
	}
	sort.Slice(s.Meters, func(i, j int) bool {
		if s.Meters[i].Meter != s.Meters[j].Meter {
			return s.Meters[i].Meter < s.Meters[j].Meter
		}
		return s.Meters[i].Index < s.Meters[j].Index
	})
	return s
}

// Meter returns the stored cell (nil when never written).
func (d *P4d) Meter(name string, index int64) *PMeter {
	d.mu.Lock()
	defer d.mu.Unlock()
	for _, m := range d.meters {
		if m.Meter == name && m.Index == index {
			c := *m
			return &c
		}
	}
	return nil
}

func (d *P4d) LogLen() int {
	d.mu.Lock()
	defer d.mu.Unlock()
	return len(d.log)
}

func (d *P4d) LogSince(i int) []PWrite {
	d.mu.Lock()
	defer d.mu.Unlock()
	if i > len(d.log) {
		i = len(d.log)
	}
	return append([]PWrite(nil), d.log[i:]...)
}

// Arm resets the Write ordinal and installs a fault plan.
func (d *P4d) Arm(plan map[int]string) {
	d.mu.Lock()
	d.writeN = 0
	d.fired = 0
	d.firedKinds = nil
	d.FailAt = plan
	if d.FailAt == nil {
		d.FailAt = map[int]string{}
	}
	d.mu.Unlock()
}

// Fired returns how many planned faults have hit a Write since Arm, and what those Writes carried.
func (d *P4d) Fired() (int, []string) {
	d.mu.Lock()
	defer d.mu.Unlock()
	return d.fired, append([]string(nil), d.firedKinds...)
}

// WriteCount returns the number of Write RPCs since Arm.
func (d *P4d) WriteCount() int {
	d.mu.Lock()
	defer d.mu.Unlock()
	return d.writeN
}

// InvalidSince returns the conformance violations recorded from index i on.
func (d *P4d) InvalidSince(i int) []string {
	d.mu.Lock()
	defer d.mu.Unlock()
	if i > len(d.Invalid) {
		i = len(d.Invalid)
	}
	return append([]string(nil), d.Invalid[i:]...)
}

func (d *P4d) PktLen() int {
	d.mu.Lock()
	defer d.mu.Unlock()
	return len(d.pkts)
}

func (d *P4d) PktSince(i int) []PktOut {
	d.mu.Lock()
	defer d.mu.Unlock()
	if i > len(d.pkts) {
		i = len(d.pkts)
	}
	return append([]PktOut(nil), d.pkts[i:]...)
}

func (d *P4d) WaitQuiet(max time.Duration) bool {
	deadline := time.Now().Add(max)
	for time.Now().Before(deadline) {
		if d.inflight.Load() == 0 {
			return true
		}
		time.Sleep(200 * time.Microsecond)
	}
	return false
}

// WaitReady waits until the agent has initialised the switch (both interfaces entries present).
func (d *P4d) WaitReady(max time.Duration) bool {
	deadline := time.Now().Add(max)
	for time.Now().Before(deadline) {
		d.mu.Lock()
		n := 0
		for _, e := range d.tables {
			for _, x := range e {
				if x.Table == "interfaces" {
					n++
				}
			}
		}
		d.mu.Unlock()
		if n >= 2 {
			return true
		}
		time.Sleep(2 * time.Millisecond)
	}
	return false
}

// WaitInitSince waits until a Write logged at index >= from has inserted interfaces entries
// without error (the agent's start-up sequence has run against this switch).
func (d *P4d) WaitInitSince(from int, max time.Duration) bool {
	deadline := time.Now().Add(max)
	for time.Now().Before(deadline) {
		for _, w := range d.LogSince(from) {
			if w.Failed != "" {
				continue
			}
			for i, k := range w.Kinds {
				if k == "INSERT interfaces" && (i >= len(w.Errors) || w.Errors[i] == 0) {
					d.WaitQuiet(time.Second)
					return true
				}
			}
		}
		time.Sleep(2 * time.Millisecond)
	}
	return false
}

func (d *P4d) MaxInflight() int64 { return d.maxInfl.Swap(0) }
func (d *P4d) Streams() int {
	d.mu.Lock()
	defer d.mu.Unlock()
	return len(d.streams)
}

// ResetExceptInterfaces wipes every table but interfaces and all meter/counter state (harness-side).
func (d *P4d) ResetExceptInterfaces() {
	d.mu.Lock()
	defer d.mu.Unlock()
	for id, tbl := range d.tables {
		for k, e := range tbl {
			if e.Table != "interfaces" {
				delete(tbl, k)
			}
		}
		_ = id
	}
	d.meters = map[[2]int64]*PMeter{}
	d.counters = map[[2]int64]int64{}
}

// Decode decodes a wire entry without recording conformance violations.
func (d *P4d) Decode(te *p4.TableEntry) *PEntry {
	e, _ := d.decode(te, false)
	return e
}

// SetDelay installs a random service delay for Write RPCs.
func (d *P4d) SetDelay(f func() time.Duration) {
	d.mu.Lock()
	d.Delay = f
	d.mu.Unlock()
}
