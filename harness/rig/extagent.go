package rig

import (
	"encoding/json"
	"fmt"
	"os"
	"os/exec"
	"path/filepath"
	"syscall"
	"time"

	"github.com/omec-project/upf-epc/pfcpiface"
)

// ExtAgent is the real cmd/pfcpiface binary running as a child process, so that it can be
// killed with SIGKILL at a chosen point and a new incarnation started against the same,
// still populated datapath.
type ExtAgent struct {
	Agent *Agent // address information only (no in-process handle)
	cmd   *exec.Cmd
	Log   string
	conf  string
}

// StartBinary writes conf to a file and starts the binary.
func StartBinary(bin string, conf pfcpiface.Conf, bessAddr string, dir string) (*ExtAgent, error) {
	if bin == "" {
		return nil, fmt.Errorf("no agent binary (VERIF_AGENT_BIN)")
	}
	_ = os.MkdirAll(dir, 0o755)
	cf := filepath.Join(dir, fmt.Sprintf("conf-%s-%d.json", conf.N4Addr, time.Now().UnixNano()))
	b, err := json.Marshal(conf)
	if err != nil {
		return nil, err
	}
	if err := os.WriteFile(cf, b, 0o600); err != nil {
		return nil, err
	}
	logf := cf + ".log"
	lf, err := os.Create(logf)
	if err != nil {
		return nil, err
	}
	args := []string{"-config", cf}
	if bessAddr != "" {
		args = append(args, "-bess", bessAddr)
	}
	cmd := exec.Command(bin, args...)
	cmd.Stdout, cmd.Stderr = lf, lf
	cmd.SysProcAttr = &syscall.SysProcAttr{Pdeathsig: syscall.SIGKILL}
	if err := cmd.Start(); err != nil {
		return nil, err
	}
	lf.Close()
	e := &ExtAgent{cmd: cmd, Log: logf, conf: cf, Agent: &Agent{Conf: conf, N4: conf.N4Addr, HTTP: "127.0.0.1:" + conf.CPIface.HTTPPort}}
	deadline := time.Now().Add(10 * time.Second)
	for time.Now().Before(deadline) {
		if udpBound(conf.N4Addr, 8805) {
			return e, nil
		}
		if cmd.ProcessState != nil {
			break
		}
		time.Sleep(2 * time.Millisecond)
	}
	out, _ := os.ReadFile(logf)
	e.Kill()
	return nil, fmt.Errorf("agent binary never bound its PFCP socket: %s", tailStr(string(out), 800))
}

func tailStr(s string, n int) string {
	if len(s) > n {
		return s[len(s)-n:]
	}
	return s
}

// Kill sends SIGKILL and reaps the process.
func (e *ExtAgent) Kill() {
	if e.cmd.Process != nil {
		_ = e.cmd.Process.Kill()
		_, _ = e.cmd.Process.Wait()
	}
	// wait until the kernel has released the socket
	for i := 0; i < 500 && udpBound(e.Agent.N4, 8805); i++ {
		time.Sleep(time.Millisecond)
	}
}

// Cleanup removes the files.
func (e *ExtAgent) Cleanup() {
	_ = os.Remove(e.conf)
	_ = os.Remove(e.Log)
}
