package rig

import (
	"errors"
	"fmt"
	"net"
	"os"
	"sync"
	"sync/atomic"
	"syscall"
	"time"
	"unsafe"

	"github.com/wmnsk/go-pfcp/ie"
	"github.com/wmnsk/go-pfcp/message"
	"golang.org/x/sys/unix"
)

// Peer is a scripted PFCP control-plane peer on its own UDP socket.
type Peer struct {
	Local  *net.UDPAddr
	Remote *net.UDPAddr
	c      atomic.Pointer[net.UDPConn]
	probeN uint32
	// stale holds sequence numbers of probes that were never answered while their Probe
	// call was waiting; a late answer to one of them is not a reaction to a later datagram.
	stale   map[uint32]bool
	staleMu sync.Mutex
	// RecoveryTS is what the peer sends as its Recovery Time Stamp.
	RecoveryTS time.Time

	in     chan Dgram
	closed chan struct{}
	hbMu   sync.Mutex
	// HBReqs records every Heartbeat Request the agent originated towards this peer.
	HBReqs []HBReq
	// OnHB decides whether (and after which delay) the n-th received agent heartbeat is answered.
	// nil means: answer at once.
	OnHB func(n int, seq uint32) (answer bool, delay time.Duration)
	// Others records other agent-originated requests (Association Setup, Session Report) as they arrive.
}

// HBReq is one Heartbeat Request received from the agent.
type HBReq struct {
	Seq uint32
	TS  time.Time
	Raw []byte
}

// Dgram is one received datagram with the kernel receive timestamp.
type Dgram struct {
	B  []byte
	TS time.Time
}

// NewPeer opens a peer socket bound to local (ip:port, port 0 = any) talking to remote.
func NewPeer(local, remote string) (*Peer, error) {
	la, err := net.ResolveUDPAddr("udp4", local)
	if err != nil {
		return nil, err
	}
	ra, err := net.ResolveUDPAddr("udp4", remote)
	if err != nil {
		return nil, err
	}
	c, err := listenPeerSocket(la.String())
	if err != nil {
		return nil, err
	}
	p := &Peer{Local: c.LocalAddr().(*net.UDPAddr), Remote: ra, RecoveryTS: time.Unix(1700000000, 0),
		in: make(chan Dgram, 4096), closed: make(chan struct{})}
	p.c.Store(c)
	go p.reader(c)
	return p, nil
}

// listenPeerSocket opens a peer socket with kernel receive timestamps.
func listenPeerSocket(local string) (*net.UDPConn, error) {
	lc := net.ListenConfig{Control: func(network, address string, c syscall.RawConn) error {
		var e error
		if err := c.Control(func(fd uintptr) {
			e = unix.SetsockoptInt(int(fd), unix.SOL_SOCKET, unix.SO_REUSEADDR, 1)
			if e == nil {
				e = unix.SetsockoptInt(int(fd), unix.SOL_SOCKET, unix.SO_TIMESTAMPNS, 1)
			}
		}); err != nil {
			return err
		}
		return e
	}}
	pc, err := lc.ListenPacket(nil, "udp4", local) //nolint:staticcheck
	if err != nil {
		return nil, err
	}
	c := pc.(*net.UDPConn)
	_ = c.SetReadBuffer(4 << 20)
	return c, nil
}

// Vanish closes the peer's socket while keeping the Peer: the peer process died but its host is reachable, so
// the agent's next datagram to it is refused (ICMP port unreachable -> ECONNREFUSED on the agent's socket).
func (p *Peer) Vanish() { p.c.Load().Close() }

// Reappear binds the address and port the peer had before it vanished.
func (p *Peer) Reappear() error {
	c, err := listenPeerSocket(p.Local.String())
	if err != nil {
		return err
	}
	p.c.Store(c)
	if os.Getenv("VERIF_DEBUG_PEER") != "" {
		fmt.Fprintf(os.Stderr, "PEER reappear %v -> %v\n", c.LocalAddr(), p.Remote)
	}
	go p.reader(c)
	return nil
}

func (p *Peer) Close() {
	select {
	case <-p.closed:
	default:
		close(p.closed)
	}
	p.c.Load().Close()
}

// reader demultiplexes: Heartbeat Requests of the agent are recorded and answered according to
// OnHB in the background (so that an idle harness never looks like a dead peer); everything
// else is queued for Recv.
func (p *Peer) reader(c *net.UDPConn) {
	for {
		d, err := readOne(c)
		if err != nil {
			select {
			case <-p.closed:
				return
			default:
			}
			if errors.Is(err, net.ErrClosed) {
				return
			}
			time.Sleep(time.Millisecond)
			continue
		}
		if typ, seq, ok := hdrTypeSeq(d.B); ok && typ == message.MsgTypeHeartbeatRequest {
			p.hbMu.Lock()
			p.HBReqs = append(p.HBReqs, HBReq{Seq: seq, TS: d.TS, Raw: d.B})
			n := len(p.HBReqs)
			on := p.OnHB
			p.hbMu.Unlock()
			answer, delay := true, time.Duration(0)
			if on != nil {
				answer, delay = on(n, seq)
			}
			if answer {
				resp := message.NewHeartbeatResponse(seq, ie.NewRecoveryTimeStamp(p.RecoveryTS))
				if delay > 0 {
					go func() {
						time.Sleep(delay)
						_ = p.Send(resp)
					}()
				} else {
					_ = p.Send(resp)
				}
			}
			continue
		}
		select {
		case p.in <- d:
		default: // queue full: drop the oldest
			select {
			case <-p.in:
			default:
			}
			p.in <- d
		}
	}
}

// SetOnHB installs the heartbeat policy.
func (p *Peer) SetOnHB(f func(n int, seq uint32) (bool, time.Duration)) {
	p.hbMu.Lock()
	p.OnHB = f
	p.hbMu.Unlock()
}

// HBSeen returns a copy of the agent heartbeats received so far.
func (p *Peer) HBSeen() []HBReq {
	p.hbMu.Lock()
	defer p.hbMu.Unlock()
	return append([]HBReq(nil), p.HBReqs...)
}

// SendRaw sends bytes to the agent.
func (p *Peer) SendRaw(b []byte) error {
	_, err := p.c.Load().WriteToUDP(b, p.Remote)
	if err != nil && os.Getenv("VERIF_DEBUG_PEER") != "" {
		fmt.Fprintf(os.Stderr, "PEER send error %v: %v\n", p.c.Load().LocalAddr(), err)
	}
	return err
}

// SendRawTo sends bytes to an arbitrary destination.
func (p *Peer) SendRawTo(b []byte, to *net.UDPAddr) error {
	_, err := p.c.Load().WriteToUDP(b, to)
	return err
}

// Send marshals and sends a message.
func (p *Peer) Send(m message.Message) error {
	b := make([]byte, m.MarshalLen())
	if err := m.MarshalTo(b); err != nil {
		return err
	}
	return p.SendRaw(b)
}

// ErrTimeout is returned by Recv when nothing arrived in time.
var ErrTimeout = errors.New("timeout")

// Recv waits up to d for one datagram that is not an agent heartbeat.
func (p *Peer) Recv(d time.Duration) (Dgram, error) {
	if d <= 0 {
		select {
		case dg := <-p.in:
			return dg, nil
		default:
			return Dgram{}, ErrTimeout
		}
	}
	t := time.NewTimer(d)
	defer t.Stop()
	select {
	case dg := <-p.in:
		return dg, nil
	case <-t.C:
		return Dgram{}, ErrTimeout
	case <-p.closed:
		return Dgram{}, net.ErrClosed
	}
}

func readOne(c *net.UDPConn) (Dgram, error) {
	buf := make([]byte, 65536)
	oob := make([]byte, 256)
	n, oobn, _, _, err := c.ReadMsgUDP(buf, oob)
	if err != nil {
		return Dgram{}, err
	}
	ts := time.Now()
	if oobn > 0 {
		if msgs, err := unix.ParseSocketControlMessage(oob[:oobn]); err == nil {
			for _, m := range msgs {
				if m.Header.Level == unix.SOL_SOCKET && m.Header.Type == unix.SO_TIMESTAMPNS && len(m.Data) >= int(unsafe.Sizeof(unix.Timespec{})) {
					t := (*unix.Timespec)(unsafe.Pointer(&m.Data[0]))
					ts = time.Unix(int64(t.Sec), int64(t.Nsec))
				}
			}
		}
	}
	return Dgram{B: append([]byte(nil), buf[:n]...), TS: ts}, nil
}

// RecvFresh is Recv that drops late answers to earlier, abandoned probes and keep-alives. Anything that reads
// the peer's queue directly after requests went through Request/Probe must use it: a probe that was re-sent on
// a slow machine is answered twice, and the second answer arrives whenever it likes.
func (p *Peer) RecvFresh(d time.Duration) (Dgram, error) { return p.recvFresh(d) }

// recvFresh is Recv that drops late answers to earlier, abandoned probes.
func (p *Peer) recvFresh(d time.Duration) (Dgram, error) {
	deadline := time.Now().Add(d)
	for {
		left := time.Until(deadline)
		if left <= 0 {
			return Dgram{}, ErrTimeout
		}
		dg, err := p.Recv(left)
		if err != nil {
			return dg, err
		}
		if typ, seq, ok := hdrTypeSeq(dg.B); ok && typ == message.MsgTypeHeartbeatResponse {
			p.staleMu.Lock()
			st := p.stale[seq]
			if st {
				delete(p.stale, seq)
			}
			p.staleMu.Unlock()
			if st {
				continue
			}
		}
		return dg, nil
	}
}

// Keepalive sends a Heartbeat Request whose answer is of no interest: it is dropped like the
// answer to an abandoned probe whenever it arrives.
func (p *Peer) Keepalive(seq uint32) {
	p.staleMu.Lock()
	if p.stale == nil {
		p.stale = map[uint32]bool{}
	}
	p.stale[seq] = true
	p.staleMu.Unlock()
	_ = p.Send(message.NewHeartbeatRequest(seq, ie.NewRecoveryTimeStamp(p.RecoveryTS), nil))
}

// Drain discards everything already queued.
func (p *Peer) Drain() int {
	n := 0
	for {
		if _, err := p.Recv(time.Millisecond); err != nil {
			return n
		}
		n++
	}
}

func hdrTypeSeq(b []byte) (typ uint8, seq uint32, ok bool) {
	if len(b) < 8 {
		return 0, 0, false
	}
	typ = b[1]
	if b[0]&0x01 != 0 { // S flag: SEID present
		if len(b) < 16 {
			return typ, 0, false
		}
		seq = uint32(b[12])<<16 | uint32(b[13])<<8 | uint32(b[14])
	} else {
		seq = uint32(b[4])<<16 | uint32(b[5])<<8 | uint32(b[6])
	}
	return typ, seq, true
}

// ProbeResult is what came back between an injected datagram and the probe answer.
type ProbeResult struct {
	Answers [][]byte // datagrams other than probe answers, in arrival order
	Alive   bool     // a probe heartbeat was answered
	Probes  int      // number of probes sent
}

// Probe sends Heartbeat Requests with reserved sequence numbers (never equal to avoidSeq)
// until one is answered or budget expires, collecting every other datagram on the way.
func (p *Peer) Probe(avoidSeq uint32, budget time.Duration) ProbeResult {
	var res ProbeResult
	deadline := time.Now().Add(budget)
	mine := map[uint32]bool{}
	p.staleMu.Lock()
	if p.stale == nil {
		p.stale = map[uint32]bool{}
	}
	delete(p.stale, avoidSeq)
	p.staleMu.Unlock()
	defer func() {
		p.staleMu.Lock()
		for s := range mine {
			p.stale[s] = true
		}
		p.staleMu.Unlock()
	}()
	wait := 100 * time.Millisecond
	for time.Now().Before(deadline) {
		p.probeN++
		seq := (avoidSeq + 0x800000 + p.probeN%0x3fffff) & 0xffffff
		if seq == avoidSeq {
			seq = (seq + 1) & 0xffffff
		}
		mine[seq] = true
		hb := message.NewHeartbeatRequest(seq, ie.NewRecoveryTimeStamp(p.RecoveryTS), nil)
		if err := p.Send(hb); err != nil {
			time.Sleep(5 * time.Millisecond)
			continue
		}
		res.Probes++
		until := time.Now().Add(wait)
		for {
			left := time.Until(until)
			if left <= 0 {
				break
			}
			d, err := p.recvFresh(left)
			if err != nil {
				if errors.Is(err, ErrTimeout) {
					break
				}
				time.Sleep(2 * time.Millisecond) // e.g. ECONNREFUSED after ICMP
				continue
			}
			typ, seq, ok := hdrTypeSeq(d.B)
			if ok && typ == message.MsgTypeHeartbeatResponse && mine[seq] {
				res.Alive = true
				delete(mine, seq)
				return res
			}
			res.Answers = append(res.Answers, d.B)
		}
		if wait < 400*time.Millisecond {
			wait *= 2
		}
	}
	return res
}

// Exchange injects raw bytes and returns everything the agent sent back before it
// answered the probe that follows.
func (p *Peer) Exchange(raw []byte, budget time.Duration) ProbeResult {
	_, seq, _ := hdrTypeSeq(raw)
	if err := p.SendRaw(raw); err != nil {
		return ProbeResult{}
	}
	return p.Probe(seq, budget)
}

// Request sends a request and waits for the first datagram (the response), then probes
// to make sure nothing else follows. extra holds any further datagrams.
func (p *Peer) Request(m message.Message, timeout time.Duration) (resp []byte, extra [][]byte, alive bool, err error) {
	if err = p.Send(m); err != nil {
		return nil, nil, false, err
	}
	p.staleMu.Lock()
	delete(p.stale, m.Sequence())
	p.staleMu.Unlock()
	d, err := p.recvFresh(timeout)
	if err != nil {
		// no response: still find out whether the agent lives
		pr := p.Probe(m.Sequence(), time.Second)
		return nil, pr.Answers, pr.Alive, fmt.Errorf("no response to %s seq %d: %w", m.MessageTypeName(), m.Sequence(), err)
	}
	pr := p.Probe(m.Sequence(), 6*time.Second)
	return d.B, pr.Answers, pr.Alive, nil
}
