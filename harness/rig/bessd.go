// Package rig holds the harness-owned peers of the PFCP agent: a BESS gRPC
// server with table semantics (bessd), a P4Runtime server (p4d), scripted PFCP
// control-plane peers (cp) and helpers to start the real agent.
// Nothing here reuses code under test (pkg/fake_bess is NOT used).
package rig

import (
	"context"
	"fmt"
	"net"
	"sort"
	"strings"
	"sync"
	"sync/atomic"
	"time"

	pb "github.com/omec-project/upf-epc/pfcpiface/bess_pb"
	"google.golang.org/grpc"
	"google.golang.org/grpc/codes"
	"google.golang.org/grpc/stats"
	"google.golang.org/grpc/status"
)

// Events is a global event counter shared by bessd, p4d and the unix socket
// listeners so that "X happened before Y" can be decided across channels.
var Events atomic.Int64

// WEntry is one WildcardMatch (pdrLookup) entry.
type WEntry struct {
	Values   [8]uint64
	Masks    [8]uint64
	Gate     uint64
	Priority int64
	Valuesv  [5]uint64 // pdr_id, fseid, ctr_id, qer_id, far_id
	Seq      int64
}

func (e WEntry) PdrID() uint64 { return e.Valuesv[0] }
func (e WEntry) Fseid() uint64 { return e.Valuesv[1] }
func (e WEntry) QerID() uint64 { return e.Valuesv[3] }
func (e WEntry) FarID() uint64 { return e.Valuesv[4] }

// EEntry is one ExactMatch (farLookup) entry.
type EEntry struct {
	FarID, Fseid uint64
	Gate         uint64
	Values       [6]uint64 // action, tunnel_out_type, src ip, dst ip, teid, udp port
	Seq          int64
}

// QEntry is one Qos module entry (appQERLookup, sessionQERLookup, sliceMeter).
type QEntry struct {
	Fields                        []uint64
	Gate, Cir, Pir, Cbs, Pbs, Ebs uint64
	Values                        []uint64
	DeductLen                     int64 // -1 when absent
	Seq                           int64
}

// Cmd is one logged ModuleCommand.
type Cmd struct {
	Seq    int64
	Module string
	Cmd    string
	Key    string // canonical key of the touched entry ("" for clear)
	Err    string
}

type wkey struct {
	v, m [8]uint64
}

// Bessd is an in-process BESS control server.
type Bessd struct {
	pb.UnimplementedBESSControlServer

	Addr string
	lis  net.Listener
	srv  *grpc.Server

	mu    sync.Mutex
	pdr   map[wkey]*WEntry
	far   map[[2]uint64]*EEntry
	qos   map[string]map[string]*QEntry // module -> key -> entry
	log   []Cmd
	other int // commands to modules we do not model

	inflight  atomic.Int64
	maxInfl   atomic.Int64
	conns     atomic.Int64
	connSince atomic.Int64 // unix nanos of last conn state change

	// fault/delay plan (guarded by mu)
	Delay     func(module, cmd string) time.Duration
	FailNext  map[string]int // module -> number of following commands to fail with gRPC error
	RejectAll bool
}

func uval(f *pb.FieldData) uint64 {
	if f == nil {
		return 0
	}
	switch e := f.Encoding.(type) {
	case *pb.FieldData_ValueInt:
		return e.ValueInt
	case *pb.FieldData_ValueBin:
		var v uint64
		for _, b := range e.ValueBin {
			v = v<<8 | uint64(b)
		}
		return v
	}
	return 0
}

func uvals(fs []*pb.FieldData) []uint64 {
	out := make([]uint64, len(fs))
	for i, f := range fs {
		out[i] = uval(f)
	}
	return out
}

var (
	allMu sync.Mutex
	// AllBessd lists every server of this process (diagnostics).
	AllBessd []*Bessd
)

// FindKey reports which servers of this process logged a command whose key contains sub.
func FindKey(sub string) string {
	allMu.Lock()
	defer allMu.Unlock()
	out := ""
	for i, b := range AllBessd {
		b.mu.Lock()
		n := 0
		for _, c := range b.log {
			if strings.Contains(c.Key, sub) {
				n++
			}
		}
		b.mu.Unlock()
		if n > 0 {
			out += fmt.Sprintf(" [bessd#%d %s: %d commands]", i, b.Addr, n)
		}
	}
	return out
}

// NewBessd starts a server on addr ("127.0.0.1:0" picks a port).
func NewBessd(addr string) (*Bessd, error) {
	lis, err := net.Listen("tcp", addr)
	if err != nil {
		return nil, err
	}
	b := &Bessd{lis: lis, Addr: lis.Addr().String()}
	allMu.Lock()
	AllBessd = append(AllBessd, b)
	allMu.Unlock()
	b.reset()
	b.FailNext = map[string]int{}
	b.serve()
	return b, nil
}

func (b *Bessd) reset() {
	b.pdr = map[wkey]*WEntry{}
	b.far = map[[2]uint64]*EEntry{}
	b.qos = map[string]map[string]*QEntry{"appQERLookup": {}, "sessionQERLookup": {}, "sliceMeter": {}}
}

func (b *Bessd) serve() {
	b.srv = grpc.NewServer(grpc.StatsHandler(&connCounter{b: b}))
	pb.RegisterBESSControlServer(b.srv, b)
	go b.srv.Serve(b.lis) //nolint:errcheck
}

// Stop stops the gRPC server but keeps the table state (a datapath that went away).
func (b *Bessd) Stop() {
	b.srv.Stop()
}

// Restart listens again on the same address with the same table state.
func (b *Bessd) Restart() error {
	var lis net.Listener
	var err error
	for i := 0; i < 50; i++ {
		lis, err = net.Listen("tcp", b.Addr)
		if err == nil {
			break
		}
		time.Sleep(20 * time.Millisecond)
	}
	if err != nil {
		return err
	}
	b.lis = lis
	b.serve()
	return nil
}

type connCounter struct{ b *Bessd }

func (c *connCounter) TagRPC(ctx context.Context, _ *stats.RPCTagInfo) context.Context { return ctx }
func (c *connCounter) HandleRPC(context.Context, stats.RPCStats)                       {}
func (c *connCounter) TagConn(ctx context.Context, _ *stats.ConnTagInfo) context.Context {
	return ctx
}
func (c *connCounter) HandleConn(_ context.Context, s stats.ConnStats) {
	switch s.(type) {
	case *stats.ConnBegin:
		c.b.conns.Add(1)
		c.b.connSince.Store(time.Now().UnixNano())
	case *stats.ConnEnd:
		c.b.conns.Add(-1)
		c.b.connSince.Store(time.Now().UnixNano())
	}
}

// Conns returns the number of live transport connections and when that last changed.
func (b *Bessd) Conns() (int64, time.Time) {
	return b.conns.Load(), time.Unix(0, b.connSince.Load())
}

func (b *Bessd) GetVersion(context.Context, *pb.EmptyRequest) (*pb.VersionResponse, error) {
	return &pb.VersionResponse{Version: "verif-bessd"}, nil
}

func enoent(msg string) *pb.CommandResponse {
	return &pb.CommandResponse{Error: &pb.Error{Code: 2, Errmsg: msg}}
}

func einval(msg string) *pb.CommandResponse {
	return &pb.CommandResponse{Error: &pb.Error{Code: 22, Errmsg: msg}}
}

func qkey(fields []uint64) string { return fmt.Sprint(fields) }

// ModuleCommand implements the table semantics of WildcardMatch, ExactMatch and Qos.
func (b *Bessd) ModuleCommand(ctx context.Context, req *pb.CommandRequest) (*pb.CommandResponse, error) {
	n := b.inflight.Add(1)
	for {
		m := b.maxInfl.Load()
		if n <= m || b.maxInfl.CompareAndSwap(m, n) {
			break
		}
	}
	defer b.inflight.Add(-1)

	b.mu.Lock()
	delay := b.Delay
	b.mu.Unlock()
	if delay != nil {
		if d := delay(req.Name, req.Cmd); d > 0 {
			time.Sleep(d)
		}
	}

	b.mu.Lock()
	defer b.mu.Unlock()
	if b.RejectAll || b.FailNext[req.Name] > 0 {
		if b.FailNext[req.Name] > 0 {
			b.FailNext[req.Name]--
		}
		b.log = append(b.log, Cmd{Seq: Events.Add(1), Module: req.Name, Cmd: req.Cmd, Err: "injected"})
		return nil, status.Error(codes.Unavailable, "injected failure")
	}
	seq := Events.Add(1)
	c := Cmd{Seq: seq, Module: req.Name, Cmd: req.Cmd}
	resp := &pb.CommandResponse{}
	switch req.Name {
	case "pdrLookup":
		resp = b.cmdWildcard(req, &c)
	case "farLookup":
		resp = b.cmdExact(req, &c)
	case "appQERLookup", "sessionQERLookup", "sliceMeter":
		resp = b.cmdQos(req, &c)
	default:
		b.other++
		resp = enoent("no module " + req.Name)
	}
	if resp.Error != nil {
		c.Err = resp.Error.Errmsg
	}
	b.log = append(b.log, c)
	return resp, nil
}

func (b *Bessd) cmdWildcard(req *pb.CommandRequest, c *Cmd) *pb.CommandResponse {
	switch req.Cmd {
	case "add":
		var a pb.WildcardMatchCommandAddArg
		if err := req.Arg.UnmarshalTo(&a); err != nil {
			return einval(err.Error())
		}
		if len(a.Values) != 8 || len(a.Masks) != 8 || len(a.Valuesv) != 5 {
			return einval("bad field count")
		}
		var k wkey
		e := &WEntry{Gate: a.Gate, Priority: a.Priority, Seq: c.Seq}
		for i := 0; i < 8; i++ {
			k.m[i] = uval(a.Masks[i])
			k.v[i] = uval(a.Values[i]) & k.m[i]
			e.Values[i] = uval(a.Values[i])
			e.Masks[i] = k.m[i]
		}
		for i := 0; i < 5; i++ {
			e.Valuesv[i] = uval(a.Valuesv[i])
		}
		b.pdr[k] = e
		c.Key = fmt.Sprint(k)
	case "delete":
		var a pb.WildcardMatchCommandDeleteArg
		if err := req.Arg.UnmarshalTo(&a); err != nil {
			return einval(err.Error())
		}
		if len(a.Values) != 8 || len(a.Masks) != 8 {
			return einval("bad field count")
		}
		var k wkey
		for i := 0; i < 8; i++ {
			k.m[i] = uval(a.Masks[i])
			k.v[i] = uval(a.Values[i]) & k.m[i]
		}
		c.Key = fmt.Sprint(k)
		if _, ok := b.pdr[k]; !ok {
			return enoent("rule not found")
		}
		delete(b.pdr, k)
	case "clear":
		b.pdr = map[wkey]*WEntry{}
	default:
		return einval("unknown command " + req.Cmd)
	}
	return &pb.CommandResponse{}
}

func (b *Bessd) cmdExact(req *pb.CommandRequest, c *Cmd) *pb.CommandResponse {
	switch req.Cmd {
	case "add":
		var a pb.ExactMatchCommandAddArg
		if err := req.Arg.UnmarshalTo(&a); err != nil {
			return einval(err.Error())
		}
		if len(a.Fields) != 2 || len(a.Values) != 6 {
			return einval("bad field count")
		}
		e := &EEntry{FarID: uval(a.Fields[0]), Fseid: uval(a.Fields[1]), Gate: a.Gate, Seq: c.Seq}
		for i := 0; i < 6; i++ {
			e.Values[i] = uval(a.Values[i])
		}
		b.far[[2]uint64{e.FarID, e.Fseid}] = e
		c.Key = fmt.Sprint(e.FarID, e.Fseid)
	case "delete":
		var a pb.ExactMatchCommandDeleteArg
		if err := req.Arg.UnmarshalTo(&a); err != nil {
			return einval(err.Error())
		}
		if len(a.Fields) != 2 {
			return einval("bad field count")
		}
		k := [2]uint64{uval(a.Fields[0]), uval(a.Fields[1])}
		c.Key = fmt.Sprint(k[0], k[1])
		if _, ok := b.far[k]; !ok {
			return enoent("rule not found")
		}
		delete(b.far, k)
	case "clear":
		b.far = map[[2]uint64]*EEntry{}
	default:
		return einval("unknown command " + req.Cmd)
	}
	return &pb.CommandResponse{}
}

func (b *Bessd) cmdQos(req *pb.CommandRequest, c *Cmd) *pb.CommandResponse {
	tbl := b.qos[req.Name]
	want := map[string]int{"appQERLookup": 3, "sessionQERLookup": 2, "sliceMeter": 2}[req.Name]
	switch req.Cmd {
	case "add":
		var a pb.QosCommandAddArg
		if err := req.Arg.UnmarshalTo(&a); err != nil {
			return einval(err.Error())
		}
		if len(a.Fields) != want {
			return einval("bad field count")
		}
		e := &QEntry{Fields: uvals(a.Fields), Gate: a.Gate, Cir: a.Cir, Pir: a.Pir, Cbs: a.Cbs, Pbs: a.Pbs, Ebs: a.Ebs,
			Values: uvals(a.Values), DeductLen: -1, Seq: c.Seq}
		if d, ok := a.OptionalDeductLen.(*pb.QosCommandAddArg_DeductLen); ok {
			e.DeductLen = d.DeductLen
		}
		tbl[qkey(e.Fields)] = e
		c.Key = qkey(e.Fields)
	case "delete":
		var a pb.QosCommandDeleteArg
		if err := req.Arg.UnmarshalTo(&a); err != nil {
			return einval(err.Error())
		}
		if len(a.Fields) != want {
			return einval("bad field count")
		}
		k := qkey(uvals(a.Fields))
		c.Key = k
		if _, ok := tbl[k]; !ok {
			return enoent("rule not found")
		}
		delete(tbl, k)
	case "clear":
		b.qos[req.Name] = map[string]*QEntry{}
	default:
		return einval("unknown command " + req.Cmd)
	}
	return &pb.CommandResponse{}
}

// Snapshot is a settled copy of all tables, canonically sorted.
type Snapshot struct {
	PDR   []WEntry
	FAR   []EEntry
	AppQ  []QEntry
	SessQ []QEntry
	Slice []QEntry
}

func sortQ(m map[string]*QEntry) []QEntry {
	keys := make([]string, 0, len(m))
	for k := range m {
		keys = append(keys, k)
	}
	sort.Strings(keys)
	out := make([]QEntry, 0, len(m))
	for _, k := range keys {
		out = append(out, *m[k])
	}
	return out
}

// WaitQuiet waits until no RPC is in flight (and stays so for a short moment).
func (b *Bessd) WaitQuiet(max time.Duration) bool {
	deadline := time.Now().Add(max)
	for time.Now().Before(deadline) {
		if b.inflight.Load() == 0 {
			return true
		}
		time.Sleep(200 * time.Microsecond)
	}
	return false
}

// WaitDrained waits until no client is connected and nothing a departed client sent is still
// being served (the event counter stands still for 10 ms).
func (b *Bessd) WaitDrained(max time.Duration) bool {
	deadline := time.Now().Add(max)
	for time.Now().Before(deadline) {
		if b.conns.Load() == 0 && b.inflight.Load() == 0 {
			ev := Events.Load()
			n := b.LogLen()
			time.Sleep(10 * time.Millisecond)
			if b.conns.Load() == 0 && b.inflight.Load() == 0 && Events.Load() == ev && b.LogLen() == n {
				return true
			}
			continue
		}
		time.Sleep(500 * time.Microsecond)
	}
	return false
}

// Snap returns the current tables.
func (b *Bessd) Snap() Snapshot {
	b.mu.Lock()
	defer b.mu.Unlock()
	var s Snapshot
	for _, e := range b.pdr {
		s.PDR = append(s.PDR, *e)
	}
	sort.Slice(s.PDR, func(i, j int) bool {
		a, c := s.PDR[i], s.PDR[j]
		if a.Valuesv[1] != c.Valuesv[1] {
			return a.Valuesv[1] < c.Valuesv[1]
		}
		if a.Valuesv[0] != c.Valuesv[0] {
			return a.Valuesv[0] < c.Valuesv[0]
		}
		return fmt.Sprint(a.Values, a.Masks) < fmt.Sprint(c.Values, c.Masks)
	})
	for _, e := range b.far {
		s.FAR = append(s.FAR, *e)
	}
	sort.Slice(s.FAR, func(i, j int) bool {
		if s.FAR[i].Fseid != s.FAR[j].Fseid {
			return s.FAR[i].Fseid < s.FAR[j].Fseid
		}
		return s.FAR[i].FarID < s.FAR[j].FarID
	})
	s.AppQ = sortQ(b.qos["appQERLookup"])
	s.SessQ = sortQ(b.qos["sessionQERLookup"])
	s.Slice = sortQ(b.qos["sliceMeter"])
	return s
}

// LogLen returns the number of logged commands so far.
func (b *Bessd) LogLen() int {
	b.mu.Lock()
	defer b.mu.Unlock()
	return len(b.log)
}

// LogSince returns the commands logged from index i on.
func (b *Bessd) LogSince(i int) []Cmd {
	b.mu.Lock()
	defer b.mu.Unlock()
	if i > len(b.log) {
		i = len(b.log)
	}
	return append([]Cmd(nil), b.log[i:]...)
}

// MaxInflight returns (and resets) the high-water mark of concurrent RPCs.
func (b *Bessd) MaxInflight() int64 { return b.maxInfl.Swap(0) }

// Inject puts an arbitrary pdr/far/qos entry (junk left by a previous incarnation).
func (b *Bessd) Inject(f func(b *Bessd)) {
	b.mu.Lock()
	defer b.mu.Unlock()
	f(b)
}

// InjectJunk inserts n junk entries into every table (used before a first start).
func (b *Bessd) InjectJunk(n int, salt uint64) {
	b.mu.Lock()
	defer b.mu.Unlock()
	for i := 0; i < n; i++ {
		x := salt + uint64(i)*7919
		var k wkey
		e := &WEntry{Gate: x & 1, Priority: int64(x % 1000)}
		for j := 0; j < 8; j++ {
			k.m[j] = 0xff
			k.v[j] = (x >> uint(j)) & 0xff
			e.Values[j], e.Masks[j] = k.v[j], k.m[j]
		}
		e.Valuesv = [5]uint64{x % 10, x, 0, x % 3, x % 5}
		b.pdr[k] = e
		b.far[[2]uint64{x % 9, x}] = &EEntry{FarID: x % 9, Fseid: x}
		b.qos["appQERLookup"][qkey([]uint64{1, x % 4, x})] = &QEntry{Fields: []uint64{1, x % 4, x}}
		b.qos["sessionQERLookup"][qkey([]uint64{2, x})] = &QEntry{Fields: []uint64{2, x}}
	}
}

// ResetTables empties every table (harness-side; call inside Inject).
func (b *Bessd) ResetTables() { b.reset() }

// Close shuts the server down for good.
func (b *Bessd) Close() { b.srv.Stop() }
