package rig

import (
	"net"
	"os"
	"sync"
	"time"
)

// UnixPkt is one packet received on a unixpacket listener.
type UnixPkt struct {
	B   []byte
	Seq int64
	At  time.Time
}

// UnixL is a unixpacket listener standing in for BESS' notifyCP / pfcpPort sockets.
// The agent dials it at start-up; the harness writes notifications to, and reads end
// markers from, the accepted connection.
type UnixL struct {
	Path string
	l    *net.UnixListener
	mu   sync.Mutex
	conn []*net.UnixConn
	pkts []UnixPkt
}

func NewUnixL(path string) (*UnixL, error) {
	_ = os.Remove(path)
	l, err := net.ListenUnix("unixpacket", &net.UnixAddr{Name: path, Net: "unixpacket"})
	if err != nil {
		return nil, err
	}
	u := &UnixL{Path: path, l: l}
	go func() {
		for {
			c, err := l.AcceptUnix()
			if err != nil {
				return
			}
			u.mu.Lock()
			u.conn = append(u.conn, c)
			u.mu.Unlock()
			go u.read(c)
		}
	}()
	return u, nil
}

func (u *UnixL) read(c *net.UnixConn) {
	buf := make([]byte, 65536)
	for {
		n, err := c.Read(buf)
		if err != nil {
			return
		}
		u.mu.Lock()
		u.pkts = append(u.pkts, UnixPkt{B: append([]byte(nil), buf[:n]...), Seq: Events.Add(1), At: time.Now()})
		u.mu.Unlock()
	}
}

// WaitConn waits until the agent has connected.
func (u *UnixL) WaitConn(d time.Duration) bool {
	deadline := time.Now().Add(d)
	for time.Now().Before(deadline) {
		u.mu.Lock()
		n := len(u.conn)
		u.mu.Unlock()
		if n > 0 {
			return true
		}
		time.Sleep(time.Millisecond)
	}
	return false
}

// Write sends one packet to the agent over the most recent connection.
func (u *UnixL) Write(b []byte) error {
	u.mu.Lock()
	var c *net.UnixConn
	if len(u.conn) > 0 {
		c = u.conn[len(u.conn)-1]
	}
	u.mu.Unlock()
	if c == nil {
		return os.ErrNotExist
	}
	_, err := c.Write(b)
	return err
}

// Len is the number of packets received so far.
func (u *UnixL) Len() int {
	u.mu.Lock()
	defer u.mu.Unlock()
	return len(u.pkts)
}

// Since returns packets from index i on.
func (u *UnixL) Since(i int) []UnixPkt {
	u.mu.Lock()
	defer u.mu.Unlock()
	if i > len(u.pkts) {
		i = len(u.pkts)
	}
	return append([]UnixPkt(nil), u.pkts[i:]...)
}

func (u *UnixL) Close() {
	u.l.Close()
	u.mu.Lock()
	for _, c := range u.conn {
		c.Close()
	}
	u.mu.Unlock()
	_ = os.Remove(u.Path)
}
