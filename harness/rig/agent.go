package rig

import (
	"flag"
	"fmt"
	"net"
	"os"
	"strings"
	"sync"
	"time"

	"github.com/omec-project/upf-epc/logger"
	"github.com/omec-project/upf-epc/pfcpiface"
	"github.com/prometheus/client_golang/prometheus"
	dto "github.com/prometheus/client_model/go"
	"go.uber.org/zap/zapcore"
)

var startMu sync.Mutex

// regMux is installed once as prometheus.DefaultRegisterer/DefaultGatherer so that several agent
// instances can live in one process without the harness ever writing those globals again (an
// agent that is stopping reads them). Registrations go to the registry of the instance that is
// being started; unregistrations are tried on all.
type regMux struct {
	mu  sync.Mutex
	cur *prometheus.Registry
	all []*prometheus.Registry
}

func (m *regMux) set(r *prometheus.Registry) {
	m.mu.Lock()
	m.cur = r
	m.all = append(m.all, r)
	if len(m.all) > 64 {
		m.all = m.all[len(m.all)-64:]
	}
	m.mu.Unlock()
}

func (m *regMux) get() *prometheus.Registry {
	m.mu.Lock()
	defer m.mu.Unlock()
	if m.cur == nil {
		m.cur = prometheus.NewRegistry()
		m.all = append(m.all, m.cur)
	}
	return m.cur
}

func (m *regMux) Register(c prometheus.Collector) error   { return m.get().Register(c) }
func (m *regMux) MustRegister(cs ...prometheus.Collector) { m.get().MustRegister(cs...) }
func (m *regMux) Unregister(c prometheus.Collector) bool {
	m.mu.Lock()
	all := append([]*prometheus.Registry(nil), m.all...)
	m.mu.Unlock()
	ok := false
	for _, r := range all {
		ok = r.Unregister(c) || ok
	}
	return ok
}
func (m *regMux) Gather() ([]*dto.MetricFamily, error) { return m.get().Gather() }

var promMux = &regMux{}

func init() {
	lvl := zapcore.FatalLevel
	if v := os.Getenv("VERIF_LOG"); v != "" {
		if l, err := zapcore.ParseLevel(v); err == nil {
			lvl = l
		}
	}
	// SetLogLevel itself logs one Info line; silence first.
	logger.SetLogLevel(lvl)
	// In-process the BESS plug-in's join budget is raised so that a loaded machine
	// cannot turn a slow write into a "missing entry" (DESIGN.md section 5, rule 6).
	pfcpiface.Timeout = 30 * time.Second
	prometheus.DefaultRegisterer = promMux
	prometheus.DefaultGatherer = promMux
}

// Agent is one in-process instance of the real PFCP agent.
type Agent struct {
	Iface    *pfcpiface.PFCPIface
	Conf     pfcpiface.Conf
	N4       string // ip
	HTTP     string // host:port
	Registry *prometheus.Registry
	runDone  chan struct{}
}

// AccessIP / CoreIP addresses of the veth pair created by the netns wrapper.
var (
	AccessIfName = "acc0"
	CoreIfName   = "cor0"
)

// HaveNetns reports whether the veth pair of the private network namespace exists.
func HaveNetns() bool {
	_, err1 := net.InterfaceByName("acc0")
	_, err2 := net.InterfaceByName("cor0")
	return err1 == nil && err2 == nil
}

// IfaceIP returns the first IPv4 address of an interface the way the agent reads it.
func IfaceIP(name string) net.IP {
	ip, err := pfcpiface.GetUnicastAddressFromInterface(name)
	if err != nil {
		return nil
	}
	return ip.To4()
}

// BaseConfBESS returns a minimal valid BESS configuration for an in-process agent.
func BaseConfBESS(n4 string, httpPort int) pfcpiface.Conf {
	acc, cor := "acc0", "cor0"
	if !HaveNetns() {
		acc, cor = "lo", "lo"
	}
	c := pfcpiface.Conf{
		Mode:          "dpdk",
		ReadTimeout:   3600,
		RespTimeout:   "2s",
		MaxReqRetries: 5,
		N4Addr:        n4,
		LogLevel:      zapcore.FatalLevel,
	}
	c.AccessIface.IfName = acc
	c.CoreIface.IfName = cor
	c.CPIface.HTTPPort = fmt.Sprint(httpPort)
	return c
}

// BaseConfUP4 returns a minimal valid UP4 configuration.
func BaseConfUP4(n4 string, httpPort int, p4addr string) pfcpiface.Conf {
	host, port, _ := net.SplitHostPort(p4addr)
	c := pfcpiface.Conf{
		EnableP4rt:    true,
		ReadTimeout:   3600,
		RespTimeout:   "2s",
		MaxReqRetries: 5,
		N4Addr:        n4,
		LogLevel:      zapcore.FatalLevel,
	}
	c.CPIface.HTTPPort = fmt.Sprint(httpPort)
	c.CPIface.UEIPPool = "10.250.0.0/16"
	c.P4rtcIface.AccessIP = "198.18.0.1/32"
	c.P4rtcIface.P4rtcServer = host
	c.P4rtcIface.P4rtcPort = port
	c.P4rtcIface.DefaultTC = 3
	return c
}

// StartAgent starts the real agent in-process and waits until its PFCP and HTTP sockets answer.
func StartAgent(conf pfcpiface.Conf, bessAddr string) (*Agent, error) {
	startMu.Lock()
	defer startMu.Unlock()

	reg := prometheus.NewRegistry()
	promMux.set(reg)
	if bessAddr != "" {
		if err := flag.Set("bess", bessAddr); err != nil {
			return nil, err
		}
	}
	a := &Agent{Conf: conf, N4: conf.N4Addr, Registry: reg, runDone: make(chan struct{})}
	a.HTTP = net.JoinHostPort("127.0.0.1", conf.CPIface.HTTPPort)
	a.Iface = pfcpiface.NewPFCPIface(conf)
	go func() {
		defer close(a.runDone)
		a.Iface.Run()
	}()
	// wait for the PFCP socket passively (a probe datagram would create a connection object in
	// the agent that outlives the start-up and receives digest reports first)
	deadline := time.Now().Add(30 * time.Second)
	var lastErr error = fmt.Errorf("PFCP socket %s:%s not bound", conf.N4Addr, pfcpiface.PFCPPort)
	for time.Now().Before(deadline) {
		if udpBound(conf.N4Addr, 8805) {
			lastErr = nil
			break
		}
		time.Sleep(2 * time.Millisecond)
	}
	if lastErr != nil {
		return nil, lastErr
	}
	for time.Now().Before(deadline) {
		c, err := net.DialTimeout("tcp", a.HTTP, 100*time.Millisecond)
		if err == nil {
			c.Close()
			return a, nil
		}
		lastErr = err
		time.Sleep(5 * time.Millisecond)
	}
	return nil, fmt.Errorf("agent HTTP socket never answered: %w", lastErr)
}

// udpBound reports whether a UDP socket is bound to ip:port in this network namespace.
func udpBound(ip string, port int) bool {
	b, err := os.ReadFile("/proc/net/udp")
	if err != nil {
		return true // cannot tell; do not block
	}
	v4 := net.ParseIP(ip).To4()
	if v4 == nil {
		return true
	}
	want := fmt.Sprintf("%02X%02X%02X%02X:%04X", v4[3], v4[2], v4[1], v4[0], port)
	any := fmt.Sprintf("00000000:%04X", port)
	for _, line := range strings.Split(string(b), "\n") {
		f := strings.Fields(line)
		if len(f) > 1 && (f[1] == want || f[1] == any) {
			return true
		}
	}
	return false
}

// PFCPAddr is ip:8805 of this agent.
func (a *Agent) PFCPAddr() string { return net.JoinHostPort(a.N4, pfcpiface.PFCPPort) }

// StopWithin calls Stop() and reports whether it (and Run) returned within d.
func (a *Agent) StopWithin(d time.Duration) bool {
	done := make(chan struct{})
	go func() {
		a.Iface.Stop()
		close(done)
	}()
	select {
	case <-done:
	case <-time.After(d):
		return false
	}
	select {
	case <-a.runDone:
		return true
	case <-time.After(d):
		return false
	}
}

// SessionsGauge sums pfcp_sessions over all labels from the agent's private registry.
func (a *Agent) SessionsGauge() (float64, error) {
	// Only the plain metrics are gathered; collectors that query the datapath also run
	// (that is what /metrics does) and simply find nothing at the harness server.
	mfs, err := a.Registry.Gather()
	if err != nil && mfs == nil {
		return 0, err
	}
	return sumGauge(mfs, "pfcp_sessions"), nil
}

// SessionsGaugeSeries returns pfcp_sessions per node_id label.
func (a *Agent) SessionsGaugeSeries() (map[string]float64, error) {
	mfs, err := a.Registry.Gather()
	if err != nil && mfs == nil {
		return nil, err
	}
	out := map[string]float64{}
	for _, mf := range mfs {
		if mf.GetName() != "pfcp_sessions" {
			continue
		}
		for _, m := range mf.Metric {
			if m.Gauge == nil {
				continue
			}
			l := ""
			for _, lp := range m.Label {
				if lp.GetName() == "node_id" {
					l = lp.GetValue()
				}
			}
			out[l] += m.Gauge.GetValue()
		}
	}
	return out, nil
}

func sumGauge(mfs []*dto.MetricFamily, name string) float64 {
	var s float64
	for _, mf := range mfs {
		if mf.GetName() != name {
			continue
		}
		for _, m := range mf.Metric {
			if m.Gauge != nil {
				s += m.Gauge.GetValue()
			}
		}
	}
	return s
}
