package sim

import (
	"fmt"
	"sort"

	"verif/harness/model"
	"verif/harness/rig"
)

// ExpPDR is what one live PDR must denote in pdrLookup.
type ExpPDR struct {
	Sess   *SessState
	P      model.PDR
	Iface  uint8
	Tun    bool
	TunDst uint32
	TEID   uint32
	UE     uint32
	F      model.PktFilter
	Exact  bool // filter is inside the exact envelope
	Gate   uint64
}

// BessEnv carries the addresses of the agent under test.
type BessEnv struct {
	AccessIP uint32
	CoreIP   uint32
}

const (
	ifAccess = 1
	ifCore   = 2
)

// ueOf resolves the UE address a PDR refers to (given, or learnt from Created PDR).
func ueOf(s *SessState, p model.PDR) uint32 {
	if !p.HasUE {
		return 0
	}
	if p.UEAlloc {
		if a, ok := s.AllocUE[p.ID]; ok {
			return model.IP2U(a)
		}
		// the session's allocated address is reported once per allocating PDR; any of them
		for _, a := range s.AllocUE {
			return model.IP2U(a)
		}
		return 0
	}
	return model.IP2U(p.UEIP)
}

// Expect computes the denotation of one PDR. ok=false when it cannot be denoted exactly
// (outside the supported envelope); such PDRs only get the weak checks.
func Expect(s *SessState, p model.PDR, env BessEnv) (ExpPDR, error) {
	e := ExpPDR{Sess: s, P: p, Exact: true}
	switch p.Src {
	case "access":
		e.Iface = ifAccess
	case "core":
		e.Iface = ifCore
	default:
		return e, fmt.Errorf("source interface %q outside the envelope", p.Src)
	}
	if p.FTEID {
		e.Tun = true
		if p.Choose {
			t, ok := s.ChosenTEID[p.ID]
			if !ok {
				return e, fmt.Errorf("no Created PDR F-TEID learnt for PDR %d", p.ID)
			}
			e.TEID = t
			e.TunDst = env.AccessIP
		} else {
			e.TEID = p.TEID
			e.TunDst = model.IP2U(p.N3)
		}
	}
	if p.OHR {
		e.Gate = 1
	}
	e.UE = ueOf(s, p)
	e.F = model.PktFilter{SrcHi: 65535, DstHi: 65535, ProtoAny: true}
	if p.SDF != "" {
		f, err := model.ParseFlow(p.SDF)
		if err != nil {
			e.Exact = false
			return e, nil
		}
		pf, ok := f.Orient(p.Src, e.UE)
		if !ok || f.Action != "permit" {
			e.Exact = false
		}
		e.F = pf
	}
	// the UE address itself constrains the UE side
	if e.UE != 0 {
		if e.Iface == ifAccess {
			if e.F.SrcLen != 32 || e.F.SrcNet != e.UE {
				if e.F.SrcLen != 0 && p.SDF != "" {
					e.Exact = false // SDF names something else than "assigned" on the UE side
				}
				e.F.SrcNet, e.F.SrcLen = e.UE, 32
			}
		} else {
			if e.F.DstLen != 32 || e.F.DstNet != e.UE {
				if e.F.DstLen != 0 && p.SDF != "" {
					e.Exact = false
				}
				e.F.DstNet, e.F.DstLen = e.UE, 32
			}
		}
	}
	return e, nil
}

// Matches is the statement of C03: source interface, tunnel endpoint, UE address and SDF filter.
func (e ExpPDR) Matches(p model.Pkt) bool {
	if p.Iface != e.Iface {
		return false
	}
	if e.Tun && (p.TunDst != e.TunDst || p.TEID != e.TEID) {
		return false
	}
	return e.F.Matches(p)
}

type pdrKey struct {
	fseid uint64
	id    uint64
}

func portSet(v, m uint64) *[1024]uint64 {
	var bs [1024]uint64
	val, mask := uint16(v), uint16(m)
	inv := ^mask
	if inv&(inv+1) == 0 { // prefix mask: one block
		lo := uint32(val & mask)
		hi := lo + uint32(inv)
		for p := lo; p <= hi; p++ {
			bs[p>>6] |= 1 << (p & 63)
		}
		return &bs
	}
	for p := uint32(0); p < 65536; p++ {
		if uint16(p)&mask == val&mask {
			bs[p>>6] |= 1 << (p & 63)
		}
	}
	return &bs
}

func rangeIs(bs *[1024]uint64, lo, hi uint16) (uint32, bool) {
	for p := uint32(0); p < 65536; p++ {
		in := bs[p>>6]&(1<<(p&63)) != 0
		if in != (p >= uint32(lo) && p <= uint32(hi)) {
			return p, false
		}
	}
	return 0, true
}

// checkPorts: the union of (src set x dst set) over the entries equals [slo,shi] x [dlo,dhi].
func checkPorts(es []rig.WEntry, slo, shi, dlo, dhi uint16) error {
	sameDst, sameSrc := true, true
	for _, e := range es[1:] {
		if e.Values[6]&e.Masks[6] != es[0].Values[6]&es[0].Masks[6] || e.Masks[6] != es[0].Masks[6] {
			sameDst = false
		}
		if e.Values[5]&e.Masks[5] != es[0].Values[5]&es[0].Masks[5] || e.Masks[5] != es[0].Masks[5] {
			sameSrc = false
		}
	}
	union := func(idx int) *[1024]uint64 {
		var u [1024]uint64
		for _, e := range es {
			s := portSet(e.Values[idx], e.Masks[idx])
			for i := range u {
				u[i] |= s[i]
			}
		}
		return &u
	}
	switch {
	case sameDst:
		if p, ok := rangeIs(union(5), slo, shi); !ok {
			return fmt.Errorf("source port %d wrongly (un)matched, want %d-%d", p, slo, shi)
		}
		if p, ok := rangeIs(portSet(es[0].Values[6], es[0].Masks[6]), dlo, dhi); !ok {
			return fmt.Errorf("destination port %d wrongly (un)matched, want %d-%d", p, dlo, dhi)
		}
	case sameSrc:
		if p, ok := rangeIs(union(6), dlo, dhi); !ok {
			return fmt.Errorf("destination port %d wrongly (un)matched, want %d-%d", p, dlo, dhi)
		}
		if p, ok := rangeIs(portSet(es[0].Values[5], es[0].Masks[5]), slo, shi); !ok {
			return fmt.Errorf("source port %d wrongly (un)matched, want %d-%d", p, slo, shi)
		}
	default:
		return fmt.Errorf("entries vary in both port fields (%d entries)", len(es))
	}
	return nil
}

// SessQERSet derives, from the observed tables, which QERs of the session have no
// application-level entry (the agent's choice of session-wide limiter).
func SessQERSet(s *SessState, snap rig.Snapshot) map[uint32]bool {
	hasApp := map[uint32]bool{}
	for _, e := range snap.AppQ {
		if len(e.Fields) == 3 && e.Fields[2] == s.UPSEID {
			hasApp[uint32(e.Fields[1])] = true
		}
	}
	out := map[uint32]bool{}
	for _, q := range s.QERs {
		if !hasApp[q.ID] {
			out[q.ID] = true
		}
	}
	return out
}

// BessImageOpts selects parts of the image check.
type BessImageOpts struct {
	Packets bool
	QER     bool
}

// CheckBessImage compares the settled bessd tables with the denotation of the live sessions.
func (r *Runner) CheckBessImage(snap rig.Snapshot, env BessEnv, o BessImageOpts) error {
	live := r.LiveSessions()
	bySEID := map[uint64]*SessState{}
	for _, s := range live {
		if s.UPSEID == 0 {
			return fmt.Errorf("live session %d has UP SEID 0", s.Idx)
		}
		bySEID[s.UPSEID] = s
	}
	// ---- pdrLookup ----
	exp := map[pdrKey]ExpPDR{}
	var order []pdrKey
	for _, s := range live {
		for _, p := range s.PDRs {
			e, err := Expect(s, p, env)
			if err != nil {
				return fmt.Errorf("session %d: %v", s.Idx, err)
			}
			k := pdrKey{s.UPSEID, uint64(p.ID)}
			exp[k] = e
			order = append(order, k)
		}
	}
	got := map[pdrKey][]rig.WEntry{}
	for _, e := range snap.PDR {
		k := pdrKey{e.Fseid(), e.PdrID()}
		if _, ok := exp[k]; !ok {
			return fmt.Errorf("pdrLookup holds an entry of no live PDR: pdr_id=%d fseid=%#x values=%v masks=%v", e.PdrID(), e.Fseid(), e.Values, e.Masks)
		}
		got[k] = append(got[k], e)
	}
	prio := map[pdrKey]int64{}
	for _, k := range order {
		e := exp[k]
		es := got[k]
		s := e.Sess
		if len(es) == 0 {
			return fmt.Errorf("session %d PDR %d (fseid %#x) has no pdrLookup entry", s.Idx, e.P.ID, s.UPSEID)
		}
		sq := SessQERSet(s, snap)
		for _, en := range es {
			if en.Priority != es[0].Priority {
				return fmt.Errorf("session %d PDR %d: entries with different priorities", s.Idx, e.P.ID)
			}
			if en.Gate != e.Gate {
				return fmt.Errorf("session %d PDR %d: gate %d, want decapsulation flag %d", s.Idx, e.P.ID, en.Gate, e.Gate)
			}
			if en.FarID() != uint64(e.P.FAR) {
				return fmt.Errorf("session %d PDR %d: far_id %d, want %d", s.Idx, e.P.ID, en.FarID(), e.P.FAR)
			}
			var cand []uint32
			for _, q := range e.P.QERs {
				if !sq[q] {
					cand = append(cand, q)
				}
			}
			if len(cand) > 0 && en.QerID() != uint64(cand[0]) {
				return fmt.Errorf("session %d PDR %d: qer_id %d, want first application QER %d (list %v, session-level %v)", s.Idx, e.P.ID, en.QerID(), cand[0], e.P.QERs, keys(sq))
			}
			if en.Masks[0] != 0xff || en.Values[0] != uint64(e.Iface) {
				return fmt.Errorf("session %d PDR %d: src_iface %d/%#x, want %d/0xff", s.Idx, e.P.ID, en.Values[0], en.Masks[0], e.Iface)
			}
			if e.Tun {
				if en.Masks[1] != 0xffffffff || en.Values[1] != uint64(e.TunDst) || en.Masks[2] != 0xffffffff || en.Values[2] != uint64(e.TEID) {
					return fmt.Errorf("session %d PDR %d: tunnel %s/%#x teid %d/%#x, want %s teid %d exact", s.Idx, e.P.ID,
						model.U2IP(uint32(en.Values[1])), en.Masks[1], en.Values[2], en.Masks[2], model.U2IP(e.TunDst), e.TEID)
				}
			} else if en.Masks[1] != 0 || en.Masks[2] != 0 {
				return fmt.Errorf("session %d PDR %d: tunnel fields matched (%#x,%#x) although the PDR has no F-TEID", s.Idx, e.P.ID, en.Masks[1], en.Masks[2])
			}
			if !e.Exact {
				continue
			}
			chk := func(name string, idx int, net uint32, l int) error {
				wantM := uint64(model.MaskOf(l))
				if en.Masks[idx] != wantM || en.Values[idx]&wantM != uint64(net)&wantM {
					return fmt.Errorf("session %d PDR %d: %s %s/%#x, want %s/%d", s.Idx, e.P.ID, name, model.U2IP(uint32(en.Values[idx])), en.Masks[idx], model.U2IP(net), l)
				}
				return nil
			}
			if err := chk("src_ip", 3, e.F.SrcNet, e.F.SrcLen); err != nil {
				return err
			}
			if err := chk("dst_ip", 4, e.F.DstNet, e.F.DstLen); err != nil {
				return err
			}
			if e.F.ProtoAny {
				if en.Masks[7] != 0 {
					return fmt.Errorf("session %d PDR %d: protocol matched (%d/%#x) although the filter says ip", s.Idx, e.P.ID, en.Values[7], en.Masks[7])
				}
			} else if en.Masks[7] != 0xff || en.Values[7] != uint64(e.F.Proto) {
				return fmt.Errorf("session %d PDR %d: ip_proto %d/%#x, want %d/0xff", s.Idx, e.P.ID, en.Values[7], en.Masks[7], e.F.Proto)
			}
		}
		if e.Exact {
			if err := checkPorts(es, e.F.SrcLo, e.F.SrcHi, e.F.DstLo, e.F.DstHi); err != nil {
				return fmt.Errorf("session %d PDR %d (%q): %v", s.Idx, e.P.ID, e.P.SDF, err)
			}
		}
		prio[k] = es[0].Priority
	}
	// priorities embed the precedence order
	for i, a := range order {
		for _, b := range order[i+1:] {
			pa, pb := exp[a].P.Prec, exp[b].P.Prec
			if pa < pb && !(prio[a] > prio[b]) || pb < pa && !(prio[b] > prio[a]) {
				return fmt.Errorf("priority does not follow precedence: PDR %d prec %d prio %d vs PDR %d prec %d prio %d", a.id, pa, prio[a], b.id, pb, prio[b])
			}
		}
	}
	// ---- farLookup ----
	type fk struct{ fseid, id uint64 }
	expF := map[fk]model.FAR{}
	for _, s := range live {
		for _, f := range s.FARs {
			expF[fk{s.UPSEID, uint64(f.ID)}] = f
		}
	}
	seenF := map[fk]bool{}
	for _, e := range snap.FAR {
		k := fk{e.Fseid, e.FarID}
		f, ok := expF[k]
		if !ok {
			return fmt.Errorf("farLookup holds an entry of no live FAR: far_id=%d fseid=%#x", e.FarID, e.Fseid)
		}
		seenF[k] = true
		if err := checkFAR(e, f, env); err != nil {
			return fmt.Errorf("session %d FAR %d: %v", bySEID[e.Fseid].Idx, f.ID, err)
		}
	}
	for k, f := range expF {
		if !seenF[k] {
			return fmt.Errorf("session %d FAR %d (fseid %#x) has no farLookup entry", bySEID[k.fseid].Idx, f.ID, k.fseid)
		}
	}
	// ---- QER modules ----
	if o.QER {
		if err := r.checkQERPresence(snap, live, bySEID); err != nil {
			return err
		}
	}
	if o.Packets {
		if err := r.checkPackets(snap, exp, order); err != nil {
			return err
		}
	}
	return nil
}

func keys(m map[uint32]bool) []uint32 {
	var out []uint32
	for k := range m {
		out = append(out, k)
	}
	sort.Slice(out, func(i, j int) bool { return out[i] < out[j] })
	return out
}

// FAR action codes of conf/up4.bess.
const (
	farFwdD   = 0
	farFwdU   = 1
	farDrop   = 2
	farBuffer = 3
	farNotify = 4
)

func checkFAR(e rig.EEntry, f model.FAR, env BessEnv) error {
	action := e.Values[0]
	switch {
	case f.Action&model.ActFORW != 0:
		want := uint64(farFwdD)
		if f.DstIf == model.IfCore {
			want = farFwdU
		}
		if !f.HasFwd {
			return nil // forwarding without parameters is outside the envelope
		}
		if action != want {
			return fmt.Errorf("action %d, want %d (forward towards interface %d)", action, want, f.DstIf)
		}
		if f.HasOHC {
			if e.Values[1] != 1 || e.Gate != 1 {
				return fmt.Errorf("tunnel type %d gate %d, want GTP-U (1)", e.Values[1], e.Gate)
			}
			if e.Values[3] != uint64(model.IP2U(f.Peer)) || e.Values[4] != uint64(f.TEID) || e.Values[5] != 2152 {
				return fmt.Errorf("tunnel %s teid %d port %d, want %s teid %d port 2152", model.U2IP(uint32(e.Values[3])), e.Values[4], e.Values[5], f.Peer, f.TEID)
			}
			wantSrc := env.AccessIP
			if f.DstIf == model.IfCore {
				wantSrc = env.CoreIP
			}
			if e.Values[2] != uint64(wantSrc) {
				return fmt.Errorf("tunnel source %s, want the UPF address %s of the destination interface", model.U2IP(uint32(e.Values[2])), model.U2IP(wantSrc))
			}
		} else if e.Values[1] != 0 || e.Gate != 0 || e.Values[3] != 0 || e.Values[4] != 0 {
			return fmt.Errorf("tunnel type %d dst %s teid %d although no outer header creation was sent", e.Values[1], model.U2IP(uint32(e.Values[3])), e.Values[4])
		}
	case f.Action&model.ActDROP != 0:
		if action != farDrop {
			return fmt.Errorf("action %d, want drop (2)", action)
		}
	case f.Action&model.ActBUFF != 0:
		if f.Action&model.ActNOCP != 0 {
			if action != farNotify {
				return fmt.Errorf("action %d, want notify CP (4)", action)
			}
		} else if action != farBuffer && action != farNotify {
			return fmt.Errorf("action %d, want buffer (3) or notify (4)", action)
		}
	}
	return nil
}

// checkQERPresence: every live QER has one uplink and one downlink entry in exactly one module.
func (r *Runner) checkQERPresence(snap rig.Snapshot, live []*SessState, bySEID map[uint64]*SessState) error {
	type ak struct {
		dir, q, f uint64
	}
	app := map[ak]bool{}
	for _, e := range snap.AppQ {
		if len(e.Fields) != 3 {
			return fmt.Errorf("appQERLookup entry with %d key fields", len(e.Fields))
		}
		s := bySEID[e.Fields[2]]
		if s == nil {
			return fmt.Errorf("appQERLookup holds an entry of no live session: %v", e.Fields)
		}
		found := false
		for _, q := range s.QERs {
			found = found || uint64(q.ID) == e.Fields[1]
		}
		if !found {
			return fmt.Errorf("appQERLookup holds an entry of no live QER: session %d qer %d", s.Idx, e.Fields[1])
		}
		if e.Fields[0] != ifAccess && e.Fields[0] != ifCore {
			return fmt.Errorf("appQERLookup entry with source interface %d", e.Fields[0])
		}
		app[ak{e.Fields[0], e.Fields[1], e.Fields[2]}] = true
	}
	sess := map[[2]uint64]bool{}
	for _, e := range snap.SessQ {
		if len(e.Fields) != 2 {
			return fmt.Errorf("sessionQERLookup entry with %d key fields", len(e.Fields))
		}
		if bySEID[e.Fields[1]] == nil {
			return fmt.Errorf("sessionQERLookup holds an entry of no live session: %v", e.Fields)
		}
		sess[[2]uint64{e.Fields[0], e.Fields[1]}] = true
	}
	for _, s := range live {
		nSess := 0
		for _, q := range s.QERs {
			u, d := app[ak{ifAccess, uint64(q.ID), s.UPSEID}], app[ak{ifCore, uint64(q.ID), s.UPSEID}]
			if u != d {
				return fmt.Errorf("session %d QER %d has only one of its two application entries (uplink=%v downlink=%v)", s.Idx, q.ID, u, d)
			}
			if !u {
				nSess++
			}
		}
		su, sd := sess[[2]uint64{ifAccess, s.UPSEID}], sess[[2]uint64{ifCore, s.UPSEID}]
		if su != sd {
			return fmt.Errorf("session %d has only one of its two session-level QER entries", s.Idx)
		}
		if nSess > 1 {
			return fmt.Errorf("session %d: %d QERs have no entry in appQERLookup but at most one can live in sessionQERLookup (QERs %v)", s.Idx, nSess, qerIDs(s.QERs))
		}
		if (nSess == 1) != su {
			return fmt.Errorf("session %d: %d QER(s) without application entry but session-level entries present=%v", s.Idx, nSess, su)
		}
	}
	return nil
}

func qerIDs(qs []model.QER) []uint32 {
	var out []uint32
	for _, q := range qs {
		out = append(out, q.ID)
	}
	return out
}

// bessLookup returns the keys of all highest-priority entries matching the packet.
func bessLookup(snap rig.Snapshot, p model.Pkt) []pdrKey {
	vals := [8]uint64{uint64(p.Iface), uint64(p.TunDst), uint64(p.TEID), uint64(p.Src), uint64(p.Dst), uint64(p.SPort), uint64(p.DPort), uint64(p.Proto)}
	var best []pdrKey
	var bestP int64
	for _, e := range snap.PDR {
		ok := true
		for i := 0; i < 8; i++ {
			if vals[i]&e.Masks[i] != e.Values[i]&e.Masks[i] {
				ok = false
				break
			}
		}
		if !ok {
			continue
		}
		k := pdrKey{e.Fseid(), e.PdrID()}
		if best == nil || e.Priority > bestP {
			best, bestP = []pdrKey{k}, e.Priority
		} else if e.Priority == bestP {
			best = append(best, k)
		}
	}
	return best
}

// checkPackets classifies boundary packets around every installed rule with the datapath's
// lookup and with the statement's match predicate.
func (r *Runner) checkPackets(snap rig.Snapshot, exp map[pdrKey]ExpPDR, order []pdrKey) error {
	var exact []pdrKey
	for _, k := range order {
		if exp[k].Exact {
			exact = append(exact, k)
		} else {
			return nil // a PDR outside the exact envelope may shadow others: skip classification
		}
	}
	for _, k := range exact {
		e := exp[k]
		for _, p := range boundaryPackets(e) {
			// model: matching PDRs of minimal precedence
			var want []pdrKey
			var minPrec uint32
			for _, k2 := range exact {
				if exp[k2].Matches(p) {
					pr := exp[k2].P.Prec
					if want == nil || pr < minPrec {
						want, minPrec = []pdrKey{k2}, pr
					} else if pr == minPrec {
						want = append(want, k2)
					}
				}
			}
			gotK := bessLookup(snap, p)
			if len(want) == 0 {
				if len(gotK) != 0 {
					return fmt.Errorf("packet %+v is classified to PDR %d of fseid %#x but matches no live PDR", p, gotK[0].id, gotK[0].fseid)
				}
				continue
			}
			if len(gotK) == 0 {
				return fmt.Errorf("packet %+v matches PDR %d (session %d) but the datapath lookup misses", p, want[0].id, exp[want[0]].Sess.Idx)
			}
			for _, g := range gotK {
				in := false
				for _, w := range want {
					in = in || w == g
				}
				if !in {
					return fmt.Errorf("packet %+v is classified to PDR %d (fseid %#x) but the best matching PDR is %d (precedence %d)", p, g.id, g.fseid, want[0].id, minPrec)
				}
			}
		}
	}
	return nil
}

func boundaryPackets(e ExpPDR) []model.Pkt {
	f := e.F
	base := model.Pkt{Iface: e.Iface, TunDst: e.TunDst, TEID: e.TEID, Proto: f.Proto}
	if f.ProtoAny {
		base.Proto = 17
	}
	srcFirst := f.SrcNet & model.MaskOf(f.SrcLen)
	srcLast := srcFirst | ^model.MaskOf(f.SrcLen)
	dstFirst := f.DstNet & model.MaskOf(f.DstLen)
	dstLast := dstFirst | ^model.MaskOf(f.DstLen)
	base.Src, base.Dst, base.SPort, base.DPort = srcFirst, dstFirst, f.SrcLo, f.DstLo
	out := []model.Pkt{base}
	add := func(mut func(p *model.Pkt)) {
		p := base
		mut(&p)
		out = append(out, p)
	}
	other := uint8(ifAccess)
	if e.Iface == ifAccess {
		other = ifCore
	}
	add(func(p *model.Pkt) { p.Iface = other })
	add(func(p *model.Pkt) { p.TEID++ })
	add(func(p *model.Pkt) { p.TEID-- })
	add(func(p *model.Pkt) { p.TunDst++ })
	add(func(p *model.Pkt) { p.TunDst ^= 0x00010000 })
	add(func(p *model.Pkt) { p.Src = srcLast })
	add(func(p *model.Pkt) { p.Src = srcFirst - 1 })
	add(func(p *model.Pkt) { p.Src = srcLast + 1 })
	add(func(p *model.Pkt) { p.Dst = dstLast })
	add(func(p *model.Pkt) { p.Dst = dstFirst - 1 })
	add(func(p *model.Pkt) { p.Dst = dstLast + 1 })
	add(func(p *model.Pkt) { p.Src, p.Dst = p.Dst, p.Src })
	add(func(p *model.Pkt) { p.SPort, p.DPort = p.DPort, p.SPort })
	add(func(p *model.Pkt) { p.SPort = f.SrcHi })
	add(func(p *model.Pkt) { p.SPort = f.SrcLo - 1 })
	add(func(p *model.Pkt) { p.SPort = f.SrcHi + 1 })
	add(func(p *model.Pkt) { p.DPort = f.DstHi })
	add(func(p *model.Pkt) { p.DPort = f.DstLo - 1 })
	add(func(p *model.Pkt) { p.DPort = f.DstHi + 1 })
	add(func(p *model.Pkt) { p.Proto = 6 })
	add(func(p *model.Pkt) { p.Proto = 17 })
	add(func(p *model.Pkt) { p.Proto = 1 })
	add(func(p *model.Pkt) { p.Proto++ })
	return out
}

// EntriesOf returns the pdrLookup entries attributed to (fseid, pdr id).
func EntriesOf(snap rig.Snapshot, fseid uint64, id uint16) []rig.WEntry {
	var out []rig.WEntry
	for _, e := range snap.PDR {
		if e.Fseid() == fseid && e.PdrID() == uint64(id) {
			out = append(out, e)
		}
	}
	return out
}

func maskLen(m uint64) (int, bool) {
	mm := uint32(m)
	l := 0
	for l < 32 && mm&(1<<uint(31-l)) != 0 {
		l++
	}
	if mm != model.MaskOf(l) {
		return 0, false
	}
	return l, true
}

func spanOf(bs *[1024]uint64) (lo, hi uint32, contiguous bool, empty bool) {
	first, last, n := -1, -1, 0
	for p := 0; p < 65536; p++ {
		if bs[p>>6]&(1<<(uint(p)&63)) != 0 {
			if first < 0 {
				first = p
			}
			last = p
			n++
		}
	}
	if first < 0 {
		return 0, 0, false, true
	}
	return uint32(first), uint32(last), n == last-first+1, false
}

// ObservedFilter decodes the packet filter that a PDR's entries denote (set semantics on ports).
func ObservedFilter(es []rig.WEntry) (model.PktFilter, error) {
	var pf model.PktFilter
	if len(es) == 0 {
		return pf, fmt.Errorf("no entries")
	}
	e0 := es[0]
	for _, e := range es[1:] {
		for _, i := range []int{0, 1, 2, 3, 4, 7} {
			if e.Masks[i] != e0.Masks[i] || e.Values[i]&e.Masks[i] != e0.Values[i]&e0.Masks[i] {
				return pf, fmt.Errorf("entries of one PDR differ in field %d", i)
			}
		}
	}
	var ok bool
	if pf.SrcLen, ok = maskLen(e0.Masks[3]); !ok {
		return pf, fmt.Errorf("source mask %#x is not a prefix mask", e0.Masks[3])
	}
	if pf.DstLen, ok = maskLen(e0.Masks[4]); !ok {
		return pf, fmt.Errorf("destination mask %#x is not a prefix mask", e0.Masks[4])
	}
	pf.SrcNet = uint32(e0.Values[3]) & model.MaskOf(pf.SrcLen)
	pf.DstNet = uint32(e0.Values[4]) & model.MaskOf(pf.DstLen)
	switch e0.Masks[7] {
	case 0:
		pf.ProtoAny = true
	case 0xff:
		pf.Proto = uint8(e0.Values[7])
	default:
		return pf, fmt.Errorf("protocol mask %#x", e0.Masks[7])
	}
	var su, du [1024]uint64
	for _, e := range es {
		s, d := portSet(e.Values[5], e.Masks[5]), portSet(e.Values[6], e.Masks[6])
		for i := range su {
			su[i] |= s[i]
			du[i] |= d[i]
		}
	}
	slo, shi, sc, se := spanOf(&su)
	dlo, dhi, dc, de := spanOf(&du)
	if se || de || !sc || !dc {
		return pf, fmt.Errorf("port sets are not contiguous ranges")
	}
	pf.SrcLo, pf.SrcHi, pf.DstLo, pf.DstHi = uint16(slo), uint16(shi), uint16(dlo), uint16(dhi)
	if err := checkPorts(es, pf.SrcLo, pf.SrcHi, pf.DstLo, pf.DstHi); err != nil {
		return pf, err
	}
	return pf, nil
}

// SameFilter compares two packet filters by what they match.
func SameFilter(a, b model.PktFilter) bool {
	norm := func(f model.PktFilter) model.PktFilter {
		f.SrcNet &= model.MaskOf(f.SrcLen)
		f.DstNet &= model.MaskOf(f.DstLen)
		if f.ProtoAny {
			f.Proto = 0
		}
		return f
	}
	return norm(a) == norm(b)
}
