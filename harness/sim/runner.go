// Package sim executes abstract cases against the real agent and keeps the reference
// model of what the control plane has asked for (per-peer association and PFD state,
// per-session rules, identifiers learnt from responses).
package sim

import (
	"encoding/binary"
	"fmt"
	"net"
	"sort"
	"time"

	"github.com/wmnsk/go-pfcp/ie"
	"github.com/wmnsk/go-pfcp/message"

	"verif/harness/model"
	"verif/harness/rig"
)

// PeerState is the model of one control-plane peer.
type PeerState struct {
	P        *rig.Peer
	NodeID   string
	IP       string
	ConnSeen bool // the agent has a connection object for this source
	Assoc    bool
	PFDs     map[string][]string
	// inferred keyword<->direction association for PFD-backed filters (C08)
}

// SessState is the model of one PFCP session.
type SessState struct {
	Idx    int
	Peer   int
	CPSEID uint64
	UPSEID uint64
	Live   bool
	NodeID string      // the peer's Node ID when the session was established (the label of its unit in the gauge)
	PDRs   []model.PDR // in creation order
	FARs   []model.FAR
	QERs   []model.QER
	// learnt from Created PDR
	ChosenTEID map[uint16]uint32
	ChosenN3   map[uint16]string
	AllocUE    map[uint16]string
	// PFD table snapshot at the time each PDR was parsed (application IDs resolve at parse time)
	PDRApp map[uint16][]string
	// UP4SessQER: the choices of session-wide QER (0 = none) that explain every terminations entry of the session
	// observed so far; narrowed by every image check, forgotten when a request touches the QERs or the QER lists
	UP4SessQER map[uint32]bool
}

// Obs is what one op produced.
type Obs struct {
	Op       model.Op
	Sent     []byte
	Resp     message.Message
	RespRaw  []byte
	Extra    [][]byte
	Flood    [][]byte // answers to the unprobed copies of a repeated raw datagram (op.N > 1)
	Alive    bool
	NoResp   bool
	Accepted bool
	Cause    uint8
	Predict  string // "accept" | "reject" | "none" | "" (no prediction)
	CmdFrom  int    // bessd log index before the op
	CmdTo    int
	Err      error
}

// Runner drives one agent.
type Runner struct {
	// AgentNodeID: the Node ID the agent is configured with (cpiface.hostname); empty = its N4 address
	AgentNodeID string
	A           *rig.Agent
	B           *rig.Bessd
	P4          *rig.P4d
	Peers       []*PeerState
	Sess        map[int]*SessState
	Hist        []*Obs
	// RespTimeout is how long a request may stay unanswered.
	RespTimeout time.Duration
	PeerBase    int // peers use 127.0.<PeerBase>.<2+i>
	peerPort    int
	UnknownSEID uint64
}

// NewRunner creates a runner with n peers with fresh source addresses.
func NewRunner(a *rig.Agent, b *rig.Bessd, p4 *rig.P4d, n int, base int) (*Runner, error) {
	r := &Runner{A: a, B: b, P4: p4, Sess: map[int]*SessState{}, RespTimeout: 10 * time.Second, PeerBase: base,
		UnknownSEID: 0x7fffffff00000001}
	for i := 0; i < n; i++ {
		ip := fmt.Sprintf("127.0.%d.%d", base, 2+i)
		p, err := rig.NewPeer(net.JoinHostPort(ip, "0"), a.PFCPAddr())
		if err != nil {
			r.Close()
			return nil, err
		}
		nid := PeerNodeID(i)
		r.Peers = append(r.Peers, &PeerState{P: p, NodeID: nid, IP: nid, PFDs: map[string][]string{}})
	}
	return r, nil
}

// PeerNodeID is the fixed Node ID (and CP F-SEID address) of peer i, independent of the
// source address the peer socket happens to use, so that cases are static values.
func PeerNodeID(i int) string { return fmt.Sprintf("172.31.0.%d", i+1) }

// Close releases the peer sockets (the agent's connection objects stay until timeout).
func (r *Runner) Close() {
	for _, p := range r.Peers {
		if p.P != nil {
			p.P.Close()
		}
	}
}

func (r *Runner) logLen() int {
	if r.B != nil {
		return r.B.LogLen()
	}
	if r.P4 != nil {
		return r.P4.LogLen()
	}
	return 0
}

// LiveSessions returns the live sessions in index order.
func (r *Runner) LiveSessions() []*SessState {
	var out []*SessState
	for _, s := range r.Sess {
		if s.Live {
			out = append(out, s)
		}
	}
	sort.Slice(out, func(i, j int) bool { return out[i].Idx < out[j].Idx })
	return out
}

func causeOf(m message.Message) (uint8, bool) {
	var c *ie.IE
	switch x := m.(type) {
	case *message.AssociationSetupResponse:
		c = x.Cause
	case *message.AssociationReleaseResponse:
		c = x.Cause
	case *message.PFDManagementResponse:
		c = x.Cause
	case *message.SessionEstablishmentResponse:
		c = x.Cause
	case *message.SessionModificationResponse:
		c = x.Cause
	case *message.SessionDeletionResponse:
		c = x.Cause
	default:
		return 0, false
	}
	if c == nil {
		return 0, false
	}
	v, err := c.Cause()
	if err != nil {
		return 0, false
	}
	return v, true
}

func (r *Runner) request(o *Obs, p *PeerState, m message.Message) {
	o.Sent = model.Marshal(m)
	o.CmdFrom = r.logLen()
	raw, extra, alive, err := p.P.Request(m, r.RespTimeout)
	p.ConnSeen = true
	o.Extra, o.Alive = extra, alive
	if err != nil {
		o.NoResp = true
		o.Err = err
	} else {
		o.RespRaw = raw
		pm, perr := message.Parse(raw)
		if perr != nil {
			o.Err = fmt.Errorf("response does not parse: %v", perr)
		} else {
			o.Resp = pm
			if c, ok := causeOf(pm); ok {
				o.Cause = c
				o.Accepted = c == ie.CauseRequestAccepted
			}
		}
	}
	r.settle()
	o.CmdTo = r.logLen()
}

// settle waits until the datapath servers have no RPC in flight.
func (r *Runner) settle() {
	if r.B != nil {
		r.B.WaitQuiet(5 * time.Second)
	}
	if r.P4 != nil {
		r.P4.WaitQuiet(5 * time.Second)
	}
}

// Exec executes one op, updates the model from the observed outcome and records it.
func (r *Runner) Exec(op model.Op) *Obs {
	o := &Obs{Op: op}
	r.Hist = append(r.Hist, o)
	if op.Kind == "sleep" {
		time.Sleep(time.Duration(op.Ms) * time.Millisecond)
		o.Alive = true
		return o
	}
	if op.Peer < 0 || op.Peer >= len(r.Peers) {
		o.Err = fmt.Errorf("bad peer index %d", op.Peer)
		return o
	}
	p := r.Peers[op.Peer]
	switch op.Kind {
	case "assoc":
		nid := p.NodeID
		if op.NodeID != "" {
			nid = op.NodeID
		}
		o.Predict = "accept"
		r.request(o, p, model.AssocSetupTS(op.Seq, nid, op.TSOffset))
		if o.Accepted {
			p.Assoc = true
			p.NodeID = nid
		}
	case "release":
		o.Predict = "accept"
		r.request(o, p, model.AssocRelease(op.Seq, p.NodeID))
		if o.Accepted {
			// the association and all of its sessions are gone
			p.Assoc = false
			p.ConnSeen = false
			p.PFDs = map[string][]string{}
			for _, s := range r.Sess {
				if s.Peer == op.Peer {
					s.Live = false
				}
			}
			// the node forgets the connection asynchronously; wait until a new one can be made
			pr := p.P.Probe(op.Seq, 6*time.Second)
			o.Alive = pr.Alive
			o.Extra = append(o.Extra, pr.Answers...)
			p.ConnSeen = true
			r.settle()
			o.CmdTo = r.logLen()
		}
	case "hb":
		o.Predict = "accept"
		r.request(o, p, model.Heartbeat(op.Seq))
	case "pfd":
		o.Predict = "accept"
		for _, f := range op.PFDs {
			if f.Bad != "" {
				o.Predict = "reject"
			}
		}
		r.request(o, p, model.PFDMgmt(op.Seq, op.PFDs))
		if o.Accepted {
			p.PFDs = map[string][]string{}
			for _, f := range op.PFDs {
				p.PFDs[f.App] = append([]string(nil), f.Flows...)
			}
		}
	case "est":
		nid := p.NodeID
		if op.NodeID != "" {
			nid = op.NodeID
		}
		if nid == "<empty>" {
			nid = "" // FQDN Node ID with an empty name
		}
		if p.Assoc && nid == p.NodeID {
			o.Predict = "accept"
		} else {
			o.Predict = "reject"
		}
		if op.Note == "bad" {
			o.Predict = "reject"
		} else if op.Note == "any" {
			o.Predict = ""
		}
		r.request(o, p, model.Establishment(op.Seq, nid, op.CPSEID, p.IP, op))
		if o.Accepted {
			s := &SessState{Idx: op.Sess, Peer: op.Peer, CPSEID: op.CPSEID, Live: true, NodeID: nid,
				ChosenTEID: map[uint16]uint32{}, ChosenN3: map[uint16]string{}, AllocUE: map[uint16]string{},
				PDRApp: map[uint16][]string{}}
			if er, ok := o.Resp.(*message.SessionEstablishmentResponse); ok {
				if er.UPFSEID != nil {
					if f, err := er.UPFSEID.FSEID(); err == nil {
						s.UPSEID = f.SEID
					}
				}
				for _, c := range er.CreatedPDR {
					id, err := c.PDRID()
					if err != nil {
						continue
					}
					if ft, err := c.FTEID(); err == nil {
						s.ChosenTEID[id] = ft.TEID
						if ft.IPv4Address != nil {
							s.ChosenN3[id] = ft.IPv4Address.String()
						}
					}
					if ue, err := c.UEIPAddress(); err == nil && ue.IPv4Address != nil {
						s.AllocUE[id] = ue.IPv4Address.String()
					}
				}
			}
			s.PDRs = append(s.PDRs, op.PDRs...)
			s.FARs = append(s.FARs, op.FARs...)
			s.QERs = append(s.QERs, op.QERs...)
			for _, pd := range op.PDRs {
				if pd.AppID != "" {
					s.PDRApp[pd.ID] = append([]string(nil), p.PFDs[pd.AppID]...)
				}
			}
			r.Sess[op.Sess] = s
		}
	case "mod", "del":
		s := r.Sess[op.Sess]
		var seid uint64
		switch {
		case op.Addr == "unknown" || s == nil:
			seid = r.UnknownSEID
			o.Predict = "reject"
		case op.Addr == "foreign":
			seid = s.UPSEID
			o.Predict = "reject"
		default:
			seid = s.UPSEID
			if s.Live && s.Peer == op.Peer {
				o.Predict = "accept"
			} else {
				o.Predict = "reject"
			}
		}
		if op.Note == "bad" {
			o.Predict = "reject"
		} else if op.Note == "any" {
			o.Predict = ""
		}
		if op.Kind == "del" {
			r.request(o, p, model.Deletion(op.Seq, seid))
			if o.Accepted && s != nil && op.Addr == "" {
				s.Live = false
			}
		} else {
			r.request(o, p, model.Modification(op.Seq, seid, p.IP, op))
			if o.Accepted && s != nil && op.Addr == "" {
				r.applyMod(s, p, op)
			}
		}
	case "raw":
		b := hexDecode(op.Raw)
		if op.PatchSEID && len(b) >= 12 && b[0]&1 != 0 {
			if s := r.Sess[op.Sess]; s != nil {
				binary.BigEndian.PutUint64(b[4:12], s.UPSEID)
			}
		}
		o.Sent = b
		o.CmdFrom = r.logLen()
		if op.N > 1 {
			// N-1 copies first, unprobed; their answers (if any) are let through before the last copy is judged
			for k := 0; k < op.N-1; k++ {
				_ = p.P.SendRaw(b)
				if k%16 == 15 {
					time.Sleep(time.Millisecond)
				}
			}
			p.ConnSeen = true
			// a probe heartbeat behind the copies: the association handles its datagrams in order, so everything that
			// arrives before the probe's answer belongs to the copies
			_, fseq, _ := hdrSeq(b)
			fp := p.P.Probe(fseq, 30*time.Second)
			o.Flood = fp.Answers
			if !fp.Alive {
				o.Alive = false
				o.CmdTo = r.logLen()
				return o
			}
			r.settle()
		}
		pr := p.P.Exchange(b, 6*time.Second)
		p.ConnSeen = true
		o.Alive = pr.Alive
		o.Extra = pr.Answers
		r.settle()
		o.CmdTo = r.logLen()
	default:
		o.Err = fmt.Errorf("unknown op kind %q", op.Kind)
	}
	return o
}

// hdrSeq reads message type and sequence number of a PFCP datagram (0 when too short).
func hdrSeq(b []byte) (uint8, uint32, bool) {
	if len(b) < 8 {
		return 0, 0, false
	}
	off := 4
	if b[0]&1 != 0 {
		off = 12
	}
	if len(b) < off+3 {
		return b[1], 0, false
	}
	return b[1], uint32(b[off])<<16 | uint32(b[off+1])<<8 | uint32(b[off+2]), true
}

func hexDecode(s string) []byte {
	b := make([]byte, 0, len(s)/2)
	var v byte
	n := 0
	for _, c := range s {
		var d byte
		switch {
		case c >= '0' && c <= '9':
			d = byte(c - '0')
		case c >= 'a' && c <= 'f':
			d = byte(c-'a') + 10
		case c >= 'A' && c <= 'F':
			d = byte(c-'A') + 10
		default:
			continue
		}
		v = v<<4 | d
		n++
		if n%2 == 0 {
			b = append(b, v)
			v = 0
		}
	}
	return b
}

// applyMod applies an accepted modification to the model in PFCP order:
// create, update, then remove.
func (r *Runner) applyMod(s *SessState, p *PeerState, op model.Op) {
	if op.NewCP {
		s.CPSEID = op.NewCPSEID
	}
	// which QER is session-wide may only be reconsidered when the QERs or the PDRs' QER lists change
	relabel := len(op.QERs)+len(op.UpdQERs)+len(op.RemQERs)+len(op.PDRs)+len(op.RemPDRs) > 0
	for _, u := range op.UpdPDRs {
		for i := range s.PDRs {
			if s.PDRs[i].ID == u.ID && fmt.Sprint(s.PDRs[i].QERs) != fmt.Sprint(u.QERs) {
				relabel = true
			}
		}
	}
	if relabel {
		s.UP4SessQER = nil
	}
	s.PDRs = append(s.PDRs, op.PDRs...)
	s.FARs = append(s.FARs, op.FARs...)
	s.QERs = append(s.QERs, op.QERs...)
	for _, pd := range op.PDRs {
		if pd.AppID != "" {
			s.PDRApp[pd.ID] = append([]string(nil), p.PFDs[pd.AppID]...)
		}
	}
	for _, u := range op.UpdPDRs {
		for i := range s.PDRs {
			if s.PDRs[i].ID == u.ID {
				s.PDRs[i] = u
				if u.AppID != "" {
					s.PDRApp[u.ID] = append([]string(nil), p.PFDs[u.AppID]...)
				}
			}
		}
	}
	for _, u := range op.UpdFARs {
		for i := range s.FARs {
			if s.FARs[i].ID == u.ID {
				s.FARs[i] = u
			}
		}
	}
	for _, u := range op.UpdQERs {
		for i := range s.QERs {
			if s.QERs[i].ID == u.ID {
				s.QERs[i] = u
			}
		}
	}
	for _, id := range op.RemPDRs {
		for i := range s.PDRs {
			if s.PDRs[i].ID == id {
				s.PDRs = append(s.PDRs[:i:i], s.PDRs[i+1:]...)
				break
			}
		}
	}
	for _, id := range op.RemFARs {
		for i := range s.FARs {
			if s.FARs[i].ID == id {
				s.FARs = append(s.FARs[:i:i], s.FARs[i+1:]...)
				break
			}
		}
	}
	for _, id := range op.RemQERs {
		for i := range s.QERs {
			if s.QERs[i].ID == id {
				s.QERs = append(s.QERs[:i:i], s.QERs[i+1:]...)
				break
			}
		}
	}
}
