package sim

import (
	"fmt"
	"math/big"

	"verif/harness/model"
	"verif/harness/rig"
)

// QosCfg is the operator's burst configuration for one QFI/QCI.
type QosCfg struct {
	CBS, PBS, EBS uint64
	DurMs         uint64
}

// QosConf maps QFI -> configuration; Default is used for QFIs without an entry.
type QosConf struct {
	PerQFI  map[uint8]QosCfg
	Default QosCfg
}

const (
	gateMeter   = 0
	gateDrop    = 5
	gateUnmeter = 6
)

// minBurst is floor(kbps*125*ms/1000) with the stated float tolerance (relative 2^-50, minus 1 byte).
func minBurst(kbps, ms uint64) uint64 {
	x := new(big.Int).Mul(new(big.Int).SetUint64(kbps), big.NewInt(125))
	x.Mul(x, new(big.Int).SetUint64(ms))
	x.Div(x, big.NewInt(1000))
	tol := new(big.Int).Rsh(x, 50)
	x.Sub(x, tol)
	x.Sub(x, big.NewInt(1))
	if x.Sign() < 0 {
		return 0
	}
	if !x.IsUint64() {
		return ^uint64(0)
	}
	return x.Uint64()
}

func maxU(a, b uint64) uint64 {
	if a > b {
		return a
	}
	return b
}

// checkQosEntry checks one direction of one QER against the entry programmed for it.
func checkQosEntry(e rig.QEntry, q model.QER, uplink bool, conf QosConf) error {
	gate, mbr, gbr := q.GateDL, q.MBRDL, q.GBRDL
	dir := "downlink"
	if uplink {
		gate, mbr, gbr = q.GateUL, q.MBRUL, q.GBRUL
		dir = "uplink"
	}
	if q.NoMBR {
		mbr = 0
	}
	if q.NoGBR {
		gbr = 0
	}
	if gate != 0 {
		if e.Gate != gateDrop {
			return fmt.Errorf("QER %d %s: gate %d although the gate is closed (want %d)", q.ID, dir, e.Gate, gateDrop)
		}
		return nil
	}
	if mbr == 0 && gbr == 0 {
		if e.Gate != gateUnmeter {
			return fmt.Errorf("QER %d %s: gate %d with cir %d pir %d although both rates are zero (want unmetered %d)", q.ID, dir, e.Gate, e.Cir, e.Pir, gateUnmeter)
		}
		return nil
	}
	if gbr > mbr {
		return nil // outside the exact class (GBR <= MBR)
	}
	if e.Gate != gateMeter {
		return fmt.Errorf("QER %d %s: gate %d, want metered (0) for MBR %d GBR %d", q.ID, dir, e.Gate, mbr, gbr)
	}
	if e.Pir != mbr*125 {
		return fmt.Errorf("QER %d %s: pir %d bytes/s, want MBR %d kbps x 125 = %d", q.ID, dir, e.Pir, mbr, mbr*125)
	}
	if e.Cir != maxU(gbr*125, 1) {
		return fmt.Errorf("QER %d %s: cir %d bytes/s, want max(GBR %d kbps x 125, 1) = %d", q.ID, dir, e.Cir, gbr, maxU(gbr*125, 1))
	}
	cfg, ok := conf.PerQFI[q.QFI]
	if !ok {
		cfg = conf.Default
	}
	if want := maxU(minBurst(gbr, cfg.DurMs), cfg.CBS); e.Cbs < want {
		return fmt.Errorf("QER %d %s (QFI %d): cbs %d < max(GBR x duration, configured cbs %d) = %d", q.ID, dir, q.QFI, e.Cbs, cfg.CBS, want)
	}
	if want := maxU(minBurst(mbr, cfg.DurMs), cfg.PBS); e.Pbs < want {
		return fmt.Errorf("QER %d %s (QFI %d): pbs %d < max(MBR x duration, configured pbs %d) = %d", q.ID, dir, q.QFI, e.Pbs, cfg.PBS, want)
	}
	if want := maxU(minBurst(mbr, cfg.DurMs), cfg.EBS); e.Ebs < want {
		return fmt.Errorf("QER %d %s (QFI %d): ebs %d < max(MBR x duration, configured ebs %d) = %d", q.ID, dir, q.QFI, e.Ebs, cfg.EBS, want)
	}
	return nil
}

// SessQ describes the observed session-level choice of one session.
type SessQ struct {
	ID      uint32
	Present bool
	Seq     [2]int64 // entry sequence numbers (uplink, downlink) to detect rewrites
}

// CheckBessQoS checks every QER entry of every live session and the session-QER invariants.
// It returns the observed session-level choice per session index.
func (r *Runner) CheckBessQoS(snap rig.Snapshot, conf QosConf) (map[int]SessQ, error) {
	out := map[int]SessQ{}
	appBy := map[[3]uint64]rig.QEntry{}
	for _, e := range snap.AppQ {
		if len(e.Fields) == 3 {
			appBy[[3]uint64{e.Fields[0], e.Fields[1], e.Fields[2]}] = e
		}
	}
	sessBy := map[[2]uint64]rig.QEntry{}
	for _, e := range snap.SessQ {
		if len(e.Fields) == 2 {
			sessBy[[2]uint64{e.Fields[0], e.Fields[1]}] = e
		}
	}
	for _, s := range r.LiveSessions() {
		var S []model.QER
		for _, q := range s.QERs {
			u, uok := appBy[[3]uint64{ifAccess, uint64(q.ID), s.UPSEID}]
			d, dok := appBy[[3]uint64{ifCore, uint64(q.ID), s.UPSEID}]
			if uok != dok {
				return nil, fmt.Errorf("session %d QER %d has only one application-level entry", s.Idx, q.ID)
			}
			if !uok {
				S = append(S, q)
				continue
			}
			if err := checkQosEntry(u, q, true, conf); err != nil {
				return nil, fmt.Errorf("session %d: %v", s.Idx, err)
			}
			if err := checkQosEntry(d, q, false, conf); err != nil {
				return nil, fmt.Errorf("session %d: %v", s.Idx, err)
			}
			if len(u.Values) != 1 || u.Values[0] != uint64(q.QFI) || len(d.Values) != 1 || d.Values[0] != uint64(q.QFI) {
				return nil, fmt.Errorf("session %d QER %d: QFI value %v/%v, want %d", s.Idx, q.ID, u.Values, d.Values, q.QFI)
			}
		}
		su, suok := sessBy[[2]uint64{ifAccess, s.UPSEID}]
		sd, sdok := sessBy[[2]uint64{ifCore, s.UPSEID}]
		if len(S) > 1 {
			return nil, fmt.Errorf("session %d: QERs %v have no application-level entry; at most one QER per session may be the session-wide limiter", s.Idx, qerIDs(S))
		}
		if len(S) == 0 {
			if suok || sdok {
				return nil, fmt.Errorf("session %d: session-level entries present although every QER has application-level entries", s.Idx)
			}
			out[s.Idx] = SessQ{}
			continue
		}
		q := S[0]
		if !suok || !sdok {
			return nil, fmt.Errorf("session %d: QER %d has no application-level entry and no session-level entries either (uplink=%v downlink=%v)", s.Idx, q.ID, suok, sdok)
		}
		// only a QER that every PDR of the session references may be session-wide
		for _, p := range s.PDRs {
			ref := false
			for _, id := range p.QERs {
				ref = ref || id == q.ID
			}
			if !ref {
				return nil, fmt.Errorf("session %d: QER %d is treated as session-wide limiter but PDR %d (QER list %v) does not reference it", s.Idx, q.ID, p.ID, p.QERs)
			}
		}
		if err := checkQosEntry(su, q, true, conf); err != nil {
			return nil, fmt.Errorf("session %d session-level entry: %v", s.Idx, err)
		}
		if err := checkQosEntry(sd, q, false, conf); err != nil {
			return nil, fmt.Errorf("session %d session-level entry: %v", s.Idx, err)
		}
		out[s.Idx] = SessQ{ID: q.ID, Present: true, Seq: [2]int64{su.Seq, sd.Seq}}
	}
	return out, nil
}
