package sim

import (
	"fmt"
	"sort"

	"verif/harness/model"
	"verif/harness/rig"
)

// UP4Env is the configuration of the agent under test on the P4Runtime datapath.
type UP4Env struct {
	AccessIP  uint32
	AccessLen int
	PoolNet   uint32
	PoolLen   int
	Slice     uint64
	DefaultTC uint64
	QFIToTC   map[uint8]uint8
}

// UP4Opts selects optional parts.
type UP4Opts struct {
	Meters bool // check meter configuration of cells referenced by live rules (C09) and absence elsewhere
	// Rates (C09 on UP4): for every forwarding terminations entry the meter cells on the packet's path (the
	// application cell the entry names, the session cell its sessions entry names) must carry exactly the
	// peak rates MBR x 125 bytes/s of the PDR's QERs for that direction - no other limit, none missing.
	Rates bool
}

type appFilter struct {
	IP    uint32
	Len   int
	Lo    uint16
	Hi    uint16
	Any   bool
	Proto uint8
}

func (a appFilter) empty() bool { return a.Any && a.Len == 0 && a.Lo == 0 && a.Hi == 65535 }

// up4Filter is the application filter a PDR denotes on UP4: the remote side of its SDF.
func up4Filter(e ExpPDR) appFilter {
	f := e.F
	if e.Iface == ifAccess {
		return appFilter{IP: f.DstNet & model.MaskOf(f.DstLen), Len: f.DstLen, Lo: f.DstLo, Hi: f.DstHi, Any: f.ProtoAny, Proto: f.Proto}
	}
	return appFilter{IP: f.SrcNet & model.MaskOf(f.SrcLen), Len: f.SrcLen, Lo: f.SrcLo, Hi: f.SrcHi, Any: f.ProtoAny, Proto: f.Proto}
}

func findFAR(s *SessState, id uint32) (model.FAR, bool) {
	for _, f := range s.FARs {
		if f.ID == id {
			return f, true
		}
	}
	return model.FAR{}, false
}

func findQER(s *SessState, id uint32) (model.QER, bool) {
	for _, q := range s.QERs {
		if q.ID == id {
			return q, true
		}
	}
	return model.QER{}, false
}

func farEncaps(f model.FAR) bool {
	return f.Action&model.ActFORW != 0 && f.HasFwd && f.DstIf == model.IfAccess && f.HasOHC && f.TEID != 0
}

// sessUE returns the UE address of the session (from its downlink PDRs).
func sessUE(s *SessState) uint32 {
	for _, p := range s.PDRs {
		if p.Src == "core" {
			if u := ueOf(s, p); u != 0 {
				return u
			}
		}
	}
	return 0
}

// UP4Obs is what the check derives from the tables (reused by C15's exclusivity oracle).
type UP4Obs struct {
	AppID     map[appFilter]uint64
	PeerID    map[uint32]uint64 // peer address -> id
	CtrOf     map[string]uint64 // "fseidIdx/pdr" -> counter index
	AppCells  map[string][]int64
	SessCells map[int][]int64
}

// CheckUP4Image compares the switch state with the denotation of the live sessions up to a
// bijection on agent-chosen identifiers (application ids, tunnel peer ids, counter and meter cells).
func (r *Runner) CheckUP4Image(snap rig.PSnap, env UP4Env, o UP4Opts) (*UP4Obs, error) {
	obs := &UP4Obs{AppID: map[appFilter]uint64{}, PeerID: map[uint32]uint64{}, CtrOf: map[string]uint64{}, AppCells: map[string][]int64{}, SessCells: map[int][]int64{}}
	live := r.LiveSessions()
	// ---- interfaces: exactly the N3 address and the UE pool ----
	ifs := snap.Tables["interfaces"]
	if len(ifs) != 2 {
		return nil, fmt.Errorf("interfaces table holds %d entries, want exactly the N3 address and the UE pool", len(ifs))
	}
	seenAcc, seenPool := false, false
	for _, e := range ifs {
		m := e.Match["ipv4_dst_prefix"]
		switch {
		case uint32(m.Value) == env.AccessIP&model.MaskOf(env.AccessLen) && int(m.PrefixLen) == env.AccessLen:
			seenAcc = true
			if e.Action != "set_source_iface" || e.Params["src_iface"] != ifAccess || e.Params["direction"] != 1 || e.Params["slice_id"] != env.Slice {
				return nil, fmt.Errorf("interfaces entry of the N3 address: %s %v, want set_source_iface(access, uplink, slice %d)", e.Action, e.Params, env.Slice)
			}
		case uint32(m.Value) == env.PoolNet&model.MaskOf(env.PoolLen) && int(m.PrefixLen) == env.PoolLen:
			seenPool = true
			if e.Action != "set_source_iface" || e.Params["src_iface"] != ifCore || e.Params["direction"] != 2 || e.Params["slice_id"] != env.Slice {
				return nil, fmt.Errorf("interfaces entry of the UE pool: %s %v, want set_source_iface(core, downlink, slice %d)", e.Action, e.Params, env.Slice)
			}
		default:
			return nil, fmt.Errorf("interfaces table holds a foreign entry %s/%d", model.U2IP(uint32(m.Value)), m.PrefixLen)
		}
	}
	if !seenAcc || !seenPool {
		return nil, fmt.Errorf("interfaces table lacks the N3 address or the UE pool entry")
	}
	// ---- expected objects ----
	type upKey struct{ n3, teid uint32 }
	type termKey struct {
		ue  uint32
		app appFilter
	}
	wantUp := map[upKey]*SessState{}
	wantDn := map[uint32]*SessState{}
	wantPeers := map[uint32]bool{}
	wantApps := map[appFilter]uint32{} // filter -> smallest precedence that uses it (for ordering)
	type termExp struct {
		s *SessState
		e ExpPDR
	}
	wantTU := map[termKey]termExp{}
	wantTD := map[termKey]termExp{}
	benv := BessEnv{AccessIP: env.AccessIP}
	for _, s := range live {
		ue := sessUE(s)
		for _, p := range s.PDRs {
			e, err := Expect(s, p, benv)
			if err != nil {
				return nil, fmt.Errorf("session %d: %v", s.Idx, err)
			}
			af := up4Filter(e)
			if !af.empty() {
				if cur, ok := wantApps[af]; !ok || p.Prec < cur {
					wantApps[af] = p.Prec
				}
			}
			if p.Src == "access" {
				if !e.Tun {
					return nil, fmt.Errorf("session %d uplink PDR %d without F-TEID is outside the UP4 envelope", s.Idx, p.ID)
				}
				wantUp[upKey{e.TunDst, e.TEID}] = s
				wantTU[termKey{ue, af}] = termExp{s, e}
			} else {
				wantDn[ueOf(s, p)] = s
				wantTD[termKey{ueOf(s, p), af}] = termExp{s, e}
			}
		}
		for _, f := range s.FARs {
			if farEncaps(f) {
				wantPeers[model.IP2U(f.Peer)] = true
			}
		}
	}
	// ---- applications: bijection filter <-> entry ----
	usedIDs := map[uint64]bool{}
	prioOf := map[appFilter]int32{}
	for _, e := range snap.Tables["applications"] {
		var af appFilter
		af.Any, af.Hi = true, 65535
		if e.Match["slice_id"].Value != env.Slice {
			return nil, fmt.Errorf("applications entry for slice %d, want %d", e.Match["slice_id"].Value, env.Slice)
		}
		if m, ok := e.Match["app_ip_addr"]; ok {
			af.IP, af.Len = uint32(m.Value)&model.MaskOf(int(m.PrefixLen)), int(m.PrefixLen)
		}
		if m, ok := e.Match["app_l4_port"]; ok {
			af.Lo, af.Hi = uint16(m.Low), uint16(m.High)
		}
		if m, ok := e.Match["app_ip_proto"]; ok && m.Mask != 0 {
			af.Any, af.Proto = false, uint8(m.Value)
		}
		if _, ok := wantApps[af]; !ok {
			return nil, fmt.Errorf("applications holds an entry %+v (app id %d) that no live PDR's filter denotes", af, e.Params["app_id"])
		}
		id := e.Params["app_id"]
		if e.Action != "set_app_id" || id < 1 || id > 254 {
			return nil, fmt.Errorf("applications entry %+v: action %s app_id %d, want set_app_id with id in 1..254", af, e.Action, id)
		}
		if usedIDs[id] {
			return nil, fmt.Errorf("application id %d is used by two applications entries", id)
		}
		if _, dup := obs.AppID[af]; dup {
			return nil, fmt.Errorf("two applications entries for one filter %+v", af)
		}
		usedIDs[id] = true
		obs.AppID[af] = id
		prioOf[af] = e.Priority
	}
	for af := range wantApps {
		if _, ok := obs.AppID[af]; !ok {
			return nil, fmt.Errorf("no applications entry for filter %+v used by a live PDR", af)
		}
	}
	// priority ordered as precedence
	var afs []appFilter
	for af := range wantApps {
		afs = append(afs, af)
	}
	for i, a := range afs {
		for _, b := range afs[i+1:] {
			pa, pb := wantApps[a], wantApps[b]
			if pa < pb && !(prioOf[a] > prioOf[b]) || pb < pa && !(prioOf[b] > prioOf[a]) {
				return nil, fmt.Errorf("applications priorities do not follow precedence: %+v prec %d prio %d vs %+v prec %d prio %d", a, pa, prioOf[a], b, pb, prioOf[b])
			}
		}
	}
	// ---- tunnel_peers: bijection peer <-> entry ----
	peerIDs := map[uint64]bool{}
	for _, e := range snap.Tables["tunnel_peers"] {
		id := e.Match["tunnel_peer_id"].Value
		dst := uint32(e.Params["dst_addr"])
		if e.Action != "load_tunnel_param" || id < 2 || id > 254 {
			return nil, fmt.Errorf("tunnel_peers entry id %d action %s, want load_tunnel_param with id in 2..254", id, e.Action)
		}
		if !wantPeers[dst] {
			return nil, fmt.Errorf("tunnel_peers holds peer %s (id %d) although no live forwarding rule uses it", model.U2IP(dst), id)
		}
		if _, dup := obs.PeerID[dst]; dup || peerIDs[id] {
			return nil, fmt.Errorf("tunnel peer %s / id %d appears twice", model.U2IP(dst), id)
		}
		if uint32(e.Params["src_addr"]) != env.AccessIP || e.Params["sport"] != 2152 {
			return nil, fmt.Errorf("tunnel peer %s: src %s sport %d, want %s 2152", model.U2IP(dst), model.U2IP(uint32(e.Params["src_addr"])), e.Params["sport"], model.U2IP(env.AccessIP))
		}
		obs.PeerID[dst] = id
		peerIDs[id] = true
	}
	for p := range wantPeers {
		if _, ok := obs.PeerID[p]; !ok {
			return nil, fmt.Errorf("no tunnel_peers entry for GTP peer %s used by a live forwarding rule", model.U2IP(p))
		}
	}
	// ---- sessions ----
	seenUp := map[upKey]bool{}
	sessMeterOf := map[int]map[int64]bool{}
	sessMeterDir := map[sessDirKey][]uint64{} // session meter cells named by the session's sessions entries, per direction
	noteSessCell := func(s *SessState, idx uint64) {
		if idx != 0 {
			if sessMeterOf[s.Idx] == nil {
				sessMeterOf[s.Idx] = map[int64]bool{}
			}
			sessMeterOf[s.Idx][int64(idx)] = true
		}
	}
	for _, e := range snap.Tables["sessions_uplink"] {
		k := upKey{uint32(e.Match["n3_address"].Value), uint32(e.Match["teid"].Value)}
		s, ok := wantUp[k]
		if !ok {
			return nil, fmt.Errorf("sessions_uplink holds (%s, teid %d) of no live uplink PDR", model.U2IP(k.n3), k.teid)
		}
		if e.Action != "set_session_uplink" {
			return nil, fmt.Errorf("sessions_uplink (%s, %d): action %s", model.U2IP(k.n3), k.teid, e.Action)
		}
		seenUp[k] = true
		noteSessCell(s, e.Params["session_meter_idx"])
		sessMeterDir[sessDirKey{s.Idx, true}] = append(sessMeterDir[sessDirKey{s.Idx, true}], e.Params["session_meter_idx"])
	}
	for k, s := range wantUp {
		if !seenUp[k] {
			return nil, fmt.Errorf("session %d: no sessions_uplink entry under (%s, teid %d)", s.Idx, model.U2IP(k.n3), k.teid)
		}
	}
	seenDn := map[uint32]bool{}
	for _, e := range snap.Tables["sessions_downlink"] {
		ue := uint32(e.Match["ue_address"].Value)
		s, ok := wantDn[ue]
		if !ok {
			return nil, fmt.Errorf("sessions_downlink holds UE %s of no live downlink PDR", model.U2IP(ue))
		}
		seenDn[ue] = true
		noteSessCell(s, e.Params["session_meter_idx"])
		sessMeterDir[sessDirKey{s.Idx, false}] = append(sessMeterDir[sessDirKey{s.Idx, false}], e.Params["session_meter_idx"])
		// the FARs of the session's downlink PDRs decide buffer vs. tunnel peer
		var fars []model.FAR
		for _, p := range s.PDRs {
			if p.Src == "core" {
				if f, ok := findFAR(s, p.FAR); ok {
					fars = append(fars, f)
				}
			}
		}
		okAction := false
		for _, f := range fars {
			if f.Action&model.ActBUFF != 0 {
				okAction = okAction || e.Action == "set_session_downlink_buff"
			} else if farEncaps(f) {
				okAction = okAction || (e.Action == "set_session_downlink" && e.Params["tunnel_peer_id"] == obs.PeerID[model.IP2U(f.Peer)])
			} else {
				okAction = okAction || e.Action == "set_session_downlink" // dropping / non-encapsulating FAR: peer id not asserted
			}
		}
		if len(fars) > 0 && !okAction {
			return nil, fmt.Errorf("session %d: sessions_downlink for UE %s is %s %v, which follows none of its downlink FARs %+v (peer ids %v)", s.Idx, model.U2IP(ue), e.Action, e.Params, fars, obs.PeerID)
		}
	}
	for ue, s := range wantDn {
		if !seenDn[ue] {
			return nil, fmt.Errorf("session %d: no sessions_downlink entry under UE %s", s.Idx, model.U2IP(ue))
		}
	}
	// ---- terminations ----
	// Which QER of a session is session-wide is the agent's choice, but it is one choice per session: every
	// terminations entry of a PDR with two QERs must follow the QER that is NOT the chosen one, and the choice
	// stays while no request touches the QERs or the QER lists. sessChoice narrows the admissible choices.
	sessChoice := map[int]map[uint32]bool{}
	ctrSeen := map[uint64]string{}
	checkTerm := func(table string, want map[termKey]termExp, up bool) error {
		seen := map[termKey]bool{}
		byID := map[uint64]appFilter{0: {Any: true, Hi: 65535}}
		for af, id := range obs.AppID {
			byID[id] = af
		}
		for _, e := range snap.Tables[table] {
			ue := uint32(e.Match["ue_address"].Value)
			af, ok := byID[e.Match["app_id"].Value]
			if !ok {
				return fmt.Errorf("%s entry (UE %s) references application id %d that no applications entry defines", table, model.U2IP(ue), e.Match["app_id"].Value)
			}
			k := termKey{ue, af}
			te, ok := want[k]
			if !ok {
				return fmt.Errorf("%s holds (UE %s, app %d) of no live PDR", table, model.U2IP(ue), e.Match["app_id"].Value)
			}
			seen[k] = true
			s, p := te.s, te.e.P
			far, _ := findFAR(s, p.FAR)
			// the application QER of a PDR with two QERs is whichever the agent did not make session-wide:
			// the entry must be consistent with one of the admissible choices
			var cands []model.QER
			for _, id := range p.QERs {
				if q, ok := findQER(s, id); ok {
					cands = append(cands, q)
				}
			}
			if len(p.QERs) == 1 || len(cands) == 0 {
				cands = cands[:min(1, len(cands))]
			}
			tag := fmt.Sprintf("session %d PDR %d (%s)", s.Idx, p.ID, table)
			check := func(q model.QER, hasQ bool) error {
				gateClosed := hasQ && (up && q.GateUL != 0 || !up && q.GateDL != 0)
				drop := far.Action&model.ActDROP != 0 || gateClosed
				wantTC := env.DefaultTC
				if hasQ {
					if tc, ok := env.QFIToTC[q.QFI]; ok {
						wantTC = uint64(tc)
					}
				}
				switch {
				case drop:
					if e.Action != "uplink_term_drop" && e.Action != "downlink_term_drop" {
						return fmt.Errorf("%s: action %s although the FAR drops or the gate is closed", tag, e.Action)
					}
				case up:
					if e.Action != "uplink_term_fwd" {
						return fmt.Errorf("%s: action %s, want uplink_term_fwd", tag, e.Action)
					}
					if hasQ && e.Params["tc"] != wantTC {
						return fmt.Errorf("%s: traffic class %d, want %d for QFI %d", tag, e.Params["tc"], wantTC, q.QFI)
					}
				default:
					if e.Action != "downlink_term_fwd" {
						return fmt.Errorf("%s: action %s, want downlink_term_fwd", tag, e.Action)
					}
					if far.HasOHC && e.Params["teid"] != uint64(far.TEID) {
						return fmt.Errorf("%s: teid %d, want the FAR's %d", tag, e.Params["teid"], far.TEID)
					}
					if hasQ && e.Params["qfi"] != uint64(q.QFI) {
						return fmt.Errorf("%s: qfi %d, want %d", tag, e.Params["qfi"], q.QFI)
					}
					if hasQ && e.Params["tc"] != wantTC {
						return fmt.Errorf("%s: traffic class %d, want %d for QFI %d", tag, e.Params["tc"], wantTC, q.QFI)
					}
				}
				return nil
			}
			var firstErr error
			if len(cands) == 0 {
				firstErr = check(model.QER{}, false)
			} else {
				for _, q := range cands {
					if err := check(q, true); err == nil {
						firstErr = nil
						break
					} else if firstErr == nil {
						firstErr = err
					}
				}
			}
			if firstErr != nil {
				return firstErr
			}
			if len(p.QERs) == 2 && len(cands) == 2 {
				set, ok := sessChoice[s.Idx]
				if !ok {
					set = map[uint32]bool{}
					if s.UP4SessQER != nil {
						for id := range s.UP4SessQER {
							set[id] = true
						}
					} else {
						set[p.QERs[0]], set[p.QERs[1]] = true, true
					}
					sessChoice[s.Idx] = set
				}
				for sc := range set {
					// the application QER is the one of the two that is not session-wide
					app := cands[0]
					if p.QERs[0] == sc {
						app = cands[1]
					} else if p.QERs[1] != sc {
						continue // a choice that is not in this PDR's list says nothing about it
					}
					if check(app, true) != nil {
						delete(set, sc)
					}
				}
				if len(set) == 0 {
					return fmt.Errorf("%s: the entry follows QER choices that no single session-wide QER of session %d explains (QER list %v; the other entries of the session, or its entries before the last request, follow the other QER): the session-wide limiter was re-labelled", tag, s.Idx, p.QERs)
				}
			}
			if o.Rates && e.Action != "uplink_term_drop" && e.Action != "downlink_term_drop" {
				if err := r.checkUP4Rates(snap, s, p, up, tag, e.Params["app_meter_idx"], sessMeterDir[sessDirKey{s.Idx, up}]); err != nil {
					return err
				}
			}
			ctr := e.Params["ctr_idx"]
			id := fmt.Sprintf("%d/%d", s.Idx, p.ID)
			if other, dup := ctrSeen[ctr]; dup && other != id {
				return fmt.Errorf("counter cell %d is used by two live PDRs (%s and %s)", ctr, other, id)
			}
			ctrSeen[ctr] = id
			obs.CtrOf[id] = ctr
			if cell, ok := e.Params["app_meter_idx"]; ok && cell != 0 && len(p.QERs) > 0 {
				obs.AppCells[fmt.Sprintf("%d/%d", s.Idx, p.QERs[0])] = append(obs.AppCells[fmt.Sprintf("%d/%d", s.Idx, p.QERs[0])], int64(cell))
			}
		}
		for k, te := range want {
			if !seen[k] {
				return fmt.Errorf("session %d PDR %d: no %s entry under (UE %s, filter %+v)", te.s.Idx, te.e.P.ID, table, model.U2IP(k.ue), k.app)
			}
		}
		return nil
	}
	if err := checkTerm("terminations_uplink", wantTU, true); err != nil {
		return nil, err
	}
	if err := checkTerm("terminations_downlink", wantTD, false); err != nil {
		return nil, err
	}
	for _, s := range r.LiveSessions() {
		if set, ok := sessChoice[s.Idx]; ok {
			s.UP4SessQER = set
		}
	}
	for idx, cells := range sessMeterOf {
		for c := range cells {
			obs.SessCells[idx] = append(obs.SessCells[idx], c)
		}
		sort.Slice(obs.SessCells[idx], func(i, j int) bool { return obs.SessCells[idx][i] < obs.SessCells[idx][j] })
	}
	// nothing else in any other table we know of
	for name, es := range snap.Tables {
		switch name {
		case "interfaces", "applications", "tunnel_peers", "sessions_uplink", "sessions_downlink", "terminations_uplink", "terminations_downlink":
		default:
			if len(es) > 0 {
				return nil, fmt.Errorf("table %s holds %d entries the agent has no business writing", name, len(es))
			}
		}
	}
	if o.Meters {
		if err := r.checkUP4Meters(snap, obs); err != nil {
			return nil, err
		}
	}
	return obs, nil
}

type sessDirKey struct {
	idx int
	up  bool
}

// checkUP4Rates compares the peak rates of the meter cells on one PDR's path with the MBRs of its QERs.
func (r *Runner) checkUP4Rates(snap rig.PSnap, s *SessState, p model.PDR, up bool, tag string, appCell uint64, sessCells []uint64) error {
	cfg := func(meter string, idx uint64) (pir, pburst int64) {
		if idx == 0 {
			return 0, 0
		}
		for _, m := range snap.Meters {
			if m.Meter == meter && m.Index == int64(idx) && m.Cfg != nil {
				return m.Cfg.Pir, m.Cfg.Pburst
			}
		}
		return 0, 0
	}
	var want []int64
	for _, id := range p.QERs {
		if q, ok := findQER(s, id); ok {
			mbr := q.MBRDL
			if up {
				mbr = q.MBRUL
			}
			if q.NoMBR {
				mbr = 0
			}
			if mbr != 0 {
				want = append(want, int64(mbr*125))
			}
		}
	}
	var got []int64
	note := func(meter string, idx uint64) error {
		pir, pb := cfg(meter, idx)
		if pir == 0 {
			return nil
		}
		got = append(got, pir)
		// burst: at least rate x the fixed burst duration of 10 ms
		if min := pir / 100; pb < min-1 {
			return fmt.Errorf("%s: %s cell %d has peak burst %d bytes for peak rate %d bytes/s, less than the rate x 10 ms (%d)", tag, meter, idx, pb, pir, min)
		}
		return nil
	}
	if err := note("app_meter", appCell); err != nil {
		return err
	}
	seen := map[uint64]bool{}
	for _, c := range sessCells {
		if !seen[c] {
			seen[c] = true
			if err := note("session_meter", c); err != nil {
				return err
			}
		}
	}
	sort.Slice(want, func(i, j int) bool { return want[i] < want[j] })
	sort.Slice(got, func(i, j int) bool { return got[i] < got[j] })
	if fmt.Sprint(want) != fmt.Sprint(got) {
		dir := "downlink"
		if up {
			dir = "uplink"
		}
		return fmt.Errorf("%s: the meter cells on the %s path (application cell %d, session cells %v) limit at %v bytes/s, want exactly the peak rates of the PDR's QERs %v: %v (= MBR x 125)", tag, dir, appCell, sessCells, got, p.QERs, want)
	}
	return nil
}

// checkUP4Meters: configured (non-default) meter cells exist only for QERs of live sessions. A cell that
// no termination references (its direction drops) cannot be attributed to a QER, so the bound is by count:
// at most two cells per live QER; with no live QER there must be none.
func (r *Runner) checkUP4Meters(snap rig.PSnap, obs *UP4Obs) error {
	nQ := 0
	for _, s := range r.LiveSessions() {
		nQ += len(s.QERs)
	}
	nApp, nSess := 0, 0
	for _, m := range snap.Meters {
		switch m.Meter {
		case "app_meter":
			nApp++
		case "session_meter":
			nSess++
		}
	}
	if nApp+nSess > 2*nQ {
		return fmt.Errorf("%d application and %d session meter cells are configured but the live sessions have only %d QER(s) (at most two cells each): %v", nApp, nSess, nQ, snap.Meters)
	}
	return nil
}
