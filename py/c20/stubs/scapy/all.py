"""Stub of scapy.all: pings are recorded, nothing is sent."""
SENT = []


class _L:
    def __init__(self, **kw):
        self.kw = kw

    def __truediv__(self, other):
        return (self, other)


class IP(_L):
    pass


class ICMP(_L):
    pass


def send(pkt, *a, **kw):
    SENT.append(pkt)
