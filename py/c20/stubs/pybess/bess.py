"""Recording stand-in for pybess.bess with the module/gate/route semantics of bessd.

Like bessd it refuses to delete what does not exist, to create what exists, and to connect an
output gate twice. Written from BESS' documented behaviour, not from route_control.py.
"""
import errno  # noqa: F401  (route_control.py does `from pybess.bess import *` and uses errno)

__all__ = ["BESS", "errno"]


class BESS:
    class Error(Exception):
        def __init__(self, code, errmsg="", **kw):
            super().__init__(errmsg)
            self.code = code
            self.errmsg = errmsg

    class RPCError(Exception):
        pass

    class APIError(Exception):
        pass

    # the harness installs the shared state here before route_control creates its client
    STATE = None

    def __init__(self):
        self.s = BESS.STATE
        self._connected = False

    def is_connected(self):
        return self._connected

    def connect(self, grpc_url=None):
        self._connected = True

    def pause_all(self):
        self.s.calls.append(("pause_all",))

    def resume_all(self):
        self.s.calls.append(("resume_all",))

    def run_module_command(self, name, cmd, arg_type, arg):
        self.s.calls.append(("cmd", name, cmd, dict(arg)))
        if name not in self.s.modules:
            raise BESS.Error(errno.ENOENT, "No module '%s' found" % name)
        tbl = self.s.routes.setdefault(name, {})
        key = (arg["prefix"], int(arg["prefix_len"]))
        if cmd == "add":
            tbl[key] = int(arg["gate"])
        elif cmd == "delete":
            if key not in tbl:
                raise BESS.Error(errno.ENOENT, "rule does not exist")
            del tbl[key]
        else:
            raise BESS.Error(errno.EINVAL, "unknown command")

    def create_module(self, mclass, name=None, arg=None):
        self.s.calls.append(("create_module", mclass, name))
        if name in self.s.modules:
            raise BESS.Error(errno.EEXIST, "Module '%s' already exists" % name)
        self.s.modules[name] = {"class": mclass, "arg": arg}

    def destroy_module(self, name):
        self.s.calls.append(("destroy_module", name))
        if name not in self.s.modules:
            raise BESS.Error(errno.ENOENT, "No module '%s' found" % name)
        del self.s.modules[name]
        for k in [k for k, v in self.s.links.items() if k[0] == name or v[0] == name]:
            del self.s.links[k]

    def connect_modules(self, m1, m2, ogate=0, igate=0):
        self.s.calls.append(("connect_modules", m1, m2, ogate, igate))
        if m1 not in self.s.modules or m2 not in self.s.modules:
            raise BESS.Error(errno.ENOENT, "No module found")
        if (m1, ogate) in self.s.links:
            raise BESS.Error(errno.EBUSY, "Output gate %d is occupied or invalid" % ogate)
        self.s.links[(m1, ogate)] = (m2, igate)
