class ndmsg(dict):
    pass
