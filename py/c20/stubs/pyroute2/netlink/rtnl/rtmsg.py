class rtmsg(dict):
    pass
