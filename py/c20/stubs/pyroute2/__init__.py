"""Stub of pyroute2 for the /verif harness (the real package is not installed offline)."""


class NDB:  # replaced by the harness' kernel model at run time
    pass


class IPRoute:
    pass
