#!/usr/bin/env python3
"""C20: BESS route modules mirror the kernel's routes and neighbours.

Hypothesis RuleBasedStateMachine over conf/route_control.py (imported from the repository's
working tree) with stub pyroute2 / pybess / scapy modules. Events are delivered through the
netlink handlers the controller registers. The oracle rebuilds the module graph from the state
of the recording BESS stand-in and compares it with a kernel model.

usage:  test_c20.py [--replay FILE] [--worker SEED N OUT]
env:    VERIF_OUT VERIF_TIER VERIF_SEED VERIF_REPO VERIF_UNIT VERIF_SCALE
exit:   0 held, 1 violation (fail-C20-<unit>-0.json written), 2 infrastructure trouble
"""
import hashlib
import importlib
import json
import logging
import os
import subprocess
import sys
import time

HERE = os.path.dirname(os.path.abspath(__file__))
REPO = os.environ.get("VERIF_REPO", "/repo")
OUT = os.environ.get("VERIF_OUT", "/tmp/verif-c20")
TIER = os.environ.get("VERIF_TIER", "quick")
SEED = int(os.environ.get("VERIF_SEED", "1") or 1)
UNIT = os.environ.get("VERIF_UNIT", "c20")
SCALE = float(os.environ.get("VERIF_SCALE", "1") or 1)

sys.path.insert(0, os.path.join(HERE, "stubs"))
sys.path.insert(0, os.path.join(REPO, "conf"))

IFACES = {"access": 2, "core": 3, "mgmt": 4}  # mgmt is not managed
MANAGED = ["access", "core"]
# two pairs share their network address and differ in length only (10.0.0.0/8 and /16, 0.0.0.0/0 and /1): a route is
# identified by prefix AND length
PREFIXES = [("0.0.0.0", 0), ("10.0.0.0", 8), ("10.0.0.0", 16), ("10.1.0.0", 16), ("192.168.5.0", 24), ("172.16.0.0", 12), ("8.8.8.8", 32), ("0.0.0.0", 1)]
NEXTHOPS = {
    "access": ["198.18.0.2", "198.18.0.3", "198.18.0.4"],
    "core": ["198.19.0.2", "198.19.0.3", "198.19.0.4"],
    "mgmt": ["192.0.2.2"],
}


def mac_of(ip):
    a = [int(x) for x in ip.split(".")]
    return "02:00:%02x:%02x:%02x:%02x" % tuple(a)


class BessState:
    def __init__(self):
        self.modules = {}
        self.links = {}
        self.routes = {}
        self.calls = []
        for i in MANAGED:
            self.modules[i + "Routes"] = {"class": "IPLookup"}
            self.modules[i + "Merge"] = {"class": "Merge"}


class FakeTaskManager:
    def __init__(self):
        self.handlers = {}

    def register_handler(self, cls, fn):
        self.handlers[cls] = fn

    def unregister_handler(self, cls, fn):
        self.handlers.pop(cls, None)


class FakeNeighbours:
    def __init__(self, kernel):
        self.kernel = kernel

    def dump(self):
        return [{"dst": ip, "lladdr": mac} for ip, mac in self.kernel.arp.items()]


class FakeNDB:
    def __init__(self, kernel):
        self.task_manager = FakeTaskManager()
        self.neighbours = FakeNeighbours(kernel)
        self.interfaces = {idx: {"ifname": name} for name, idx in IFACES.items()}


class FakeIPRoute:
    def get_routes(self, family=None):
        return []


class Kernel:
    """The kernel model: routes and the ARP table."""

    def __init__(self):
        self.routes = {}  # (iface, prefix, plen) -> next hop
        self.arp = {}  # ip -> mac


def load_route_control():
    import pybess.bess as pb
    if "route_control" in sys.modules:
        rc = sys.modules["route_control"]
    else:
        rc = importlib.import_module("route_control")
    rc.time.sleep = lambda s: None
    logging.disable(logging.CRITICAL)
    return rc, pb


class World:
    """One controller instance wired to a fresh BESS state and kernel model."""

    def __init__(self):
        self.rc, pb = load_route_control()
        self.bess = BessState()
        pb.BESS.STATE = self.bess
        self.kernel = Kernel()
        self.ndb = FakeNDB(self.kernel)
        self.ctl = self.rc.RouteController(self.rc.BessController("localhost", "10514"), self.ndb, FakeIPRoute(), MANAGED)
        self.ctl.register_handlers()
        from pyroute2.netlink.rtnl.rtmsg import rtmsg
        from pyroute2.netlink.rtnl.ndmsg import ndmsg
        self.h_route = self.ndb.task_manager.handlers[rtmsg]
        self.h_neigh = self.ndb.task_manager.handlers[ndmsg]
        self.trace = []

    # ---- events ----
    def _rtmsg(self, event, iface, prefix, plen, nh):
        attrs = [("RTA_OIF", IFACES[iface]), ("RTA_GATEWAY", nh)]
        if plen != 0:
            attrs.append(("RTA_DST", prefix))
        return {"event": event, "attrs": attrs, "dst_len": plen}

    def new_route(self, iface, pi, ni):
        prefix, plen = PREFIXES[pi]
        nh = NEXTHOPS[iface][ni % len(NEXTHOPS[iface])]
        key = (iface, prefix, plen)
        if key in self.kernel.routes:
            return False
        self.trace.append(["new_route", iface, pi, ni])
        self.kernel.routes[key] = nh
        self.h_route(None, self._rtmsg("RTM_NEWROUTE", iface, prefix, plen, nh))
        return True

    def del_route(self, iface, pi):
        prefix, plen = PREFIXES[pi]
        key = (iface, prefix, plen)
        if key not in self.kernel.routes:
            return False
        self.trace.append(["del_route", iface, pi])
        nh = self.kernel.routes.pop(key)
        self.h_route(None, self._rtmsg("RTM_DELROUTE", iface, prefix, plen, nh))
        return True

    def resolve(self, iface, ni):
        nh = NEXTHOPS[iface][ni % len(NEXTHOPS[iface])]
        self.trace.append(["resolve", iface, ni])
        self.kernel.arp[nh] = mac_of(nh)
        self.h_neigh(None, {"event": "RTM_NEWNEIGH", "attrs": [("NDA_DST", nh), ("NDA_LLADDR", mac_of(nh))]})
        return True

    def apply(self, step):
        return getattr(self, step[0])(*step[1:])

    # ---- oracle ----
    def check(self):
        b, k = self.bess, self.kernel
        for iface in MANAGED:
            rm, merge = iface + "Routes", iface + "Merge"
            want = {}
            for (i, prefix, plen), nh in k.routes.items():
                if i == iface and nh in k.arp:
                    want[(prefix, plen)] = nh
            got = b.routes.get(rm, {})
            missing = sorted(set(want) - set(got))
            extra = sorted(set(got) - set(want))
            assert not missing, "route(s) %s via resolved next hop(s) %s are in the kernel but not installed in %s" % (
                missing, sorted({want[m] for m in missing}), rm)
            assert not extra, "route(s) %s are installed in %s but the kernel does not have them (or their next hop is unresolved)" % (extra, rm)
            gate_of = {}
            for key, nh in want.items():
                g = got[key]
                if nh in gate_of:
                    assert gate_of[nh] == g, "routes through next hop %s use gates %d and %d of %s" % (nh, gate_of[nh], g, rm)
                gate_of[nh] = g
            gates = {}
            for nh, g in gate_of.items():
                assert g not in gates, "live next hops %s and %s share gate %d of %s" % (gates.get(g), nh, g, rm)
                gates[g] = nh
            live_updates = set()
            for nh, g in gate_of.items():
                link = b.links.get((rm, g))
                assert link is not None, "gate %d of %s (next hop %s) leads nowhere" % (g, rm, nh)
                upd = link[0]
                m = b.modules.get(upd)
                assert m is not None and m["class"] == "Update", "gate %d of %s leads to %s, which is not an Update module" % (g, rm, upd)
                val = m["arg"]["fields"][0]["value"]
                assert val == int(mac_of(nh).replace(":", ""), 16), "Update module %s rewrites to MAC %012x, not to %s of next hop %s" % (upd, val, mac_of(nh), nh)
                out = b.links.get((upd, 0))
                assert out is not None and out[0] == merge, "Update module %s is not linked to %s" % (upd, merge)
                live_updates.add(upd)
            for name, m in b.modules.items():
                if m["class"] == "Update" and name.startswith(iface) and name not in live_updates:
                    raise AssertionError("Update module %s exists although no installed route uses it" % name)
        for name in b.routes:
            assert name in ("accessRoutes", "coreRoutes"), "routes written to unmanaged module %s" % name


def nontrivial(trace):
    # >= 2 routes through one next hop with at least one added while unresolved, and a deletion
    resolved = set()
    per_nh = {}
    unresolved_add = False
    deletion = False
    for s in trace:
        if s[0] == "resolve":
            resolved.add((s[1], s[2] % len(NEXTHOPS[s[1]])))
        elif s[0] == "new_route":
            nh = (s[1], s[3] % len(NEXTHOPS[s[1]]))
            per_nh[nh] = per_nh.get(nh, 0) + 1
            if nh not in resolved:
                unresolved_add = True
        elif s[0] == "del_route":
            deletion = True
    return deletion and unresolved_add and any(v >= 2 for v in per_nh.values())


def run_trace(trace):
    w = World()
    for step in trace:
        w.apply(step)
        w.check()
    return w


def worker(seed, n, outpath):
    from hypothesis import HealthCheck, Phase, seed as hseed, settings
    from hypothesis import strategies as st
    from hypothesis.stateful import RuleBasedStateMachine, invariant, rule

    stats = {"evaluations": 0, "keys": set(), "samples": [], "labels": {}, "fail": None}
    steps = 40 if TIER == "quick" else 60

    class Machine(RuleBasedStateMachine):
        def __init__(self):
            super().__init__()
            self.w = World()

        @rule(iface=st.sampled_from(["access", "core", "access", "core", "mgmt"]), pi=st.integers(0, len(PREFIXES) - 1), ni=st.integers(0, 2))
        def new_route(self, iface, pi, ni):
            self.w.new_route(iface, pi, ni)

        @rule(iface=st.sampled_from(["access", "core", "mgmt"]), pi=st.integers(0, len(PREFIXES) - 1))
        def del_route(self, iface, pi):
            self.w.del_route(iface, pi)

        @rule(k=st.integers(0, 63))
        def del_existing(self, k):
            # a deletion that hits: one of the routes the kernel model holds right now
            keys = sorted(self.w.kernel.routes)
            if keys:
                iface, prefix, plen = keys[k % len(keys)]
                self.w.del_route(iface, PREFIXES.index((prefix, plen)))

        @rule(iface=st.sampled_from(["access", "core", "mgmt"]), ni=st.integers(0, 2))
        def resolve(self, iface, ni):
            self.w.resolve(iface, ni)

        @invariant()
        def graph_mirrors_kernel(self):
            try:
                self.w.check()
            except AssertionError as e:
                stats["fail"] = {"trace": list(self.w.trace), "msg": str(e)}
                raise

        def teardown(self):
            t = self.w.trace
            stats["evaluations"] += 1
            for s in t:
                stats["labels"][s[0]] = stats["labels"].get(s[0], 0) + 1
            if nontrivial(t):
                stats["keys"].add(hashlib.sha256(json.dumps(t).encode()).hexdigest()[:16])
                if len(stats["samples"]) < 3:
                    stats["samples"].append(t)

    cfg = settings(max_examples=n, stateful_step_count=steps, deadline=None, database=None,
                   suppress_health_check=list(HealthCheck), print_blob=False,
                   phases=[Phase.generate, Phase.shrink])
    Machine = hseed(seed)(Machine)
    from hypothesis.stateful import run_state_machine_as_test
    failed = False
    try:
        run_state_machine_as_test(Machine, settings=cfg)
    except AssertionError:
        failed = True
    except Exception as e:  # harness or controller exception escaping a handler
        if stats["fail"] is None:
            stats["fail"] = {"trace": [], "msg": "exception: %r" % (e,)}
        failed = True
    out = {"property_id": "C20", "evaluations": stats["evaluations"], "nontrivial_keys": sorted(stats["keys"]), "labels": stats["labels"],
           "samples": stats["samples"], "excluded": {}, "assumptions": [
               "pyroute2/pybess/scapy are stubs; the BESS stand-in refuses deleting missing routes/modules and connecting an occupied gate, like bessd",
               "neighbour resolution = the MAC appears in the ARP table and RTM_NEWNEIGH is delivered, atomically"],
           "rule": "Hypothesis RuleBasedStateMachine: RTM_NEWROUTE (prefix absent), RTM_DELROUTE (prefix present, also while unresolved), neighbour resolution and repeated RTM_NEWNEIGH over 2 managed + 1 unmanaged interface, 8 prefixes incl. the default route and two pairs that share a network address and differ in length only, 3 next hops per interface, delivered through the registered netlink handlers; the module graph is rebuilt from the BESS stand-in after every step; non-trivial = >=2 routes through one next hop with at least one added while unresolved, and a deletion; distinct by step list",
           "failed": failed, "fail": stats["fail"], "extra": {}}
    json.dump(out, open(outpath, "w"))
    return 1 if failed else 0


def main():
    os.makedirs(OUT, exist_ok=True)
    if len(sys.argv) >= 3 and sys.argv[1] == "--replay":
        rf = json.load(open(sys.argv[2]))
        try:
            run_trace(rf["case"]["ops"])
        except AssertionError as e:
            print("REPLAY-FAIL C20:", e)
            return 1
        print("replay passed")
        return 0
    if len(sys.argv) >= 5 and sys.argv[1] == "--worker":
        return worker(int(sys.argv[2]), int(sys.argv[3]), sys.argv[4])
    total = int((24000 if TIER == "quick" else 400000) * SCALE)
    nproc = min(16, os.cpu_count() or 4)
    per = max(1, total // nproc)
    procs = []
    for i in range(nproc):
        outp = os.path.join(OUT, "shard-C20-%s-%d.json" % (UNIT, i))
        procs.append((i, outp, subprocess.Popen([sys.executable, __file__, "--worker", str(SEED * 1000 + i + 1), str(per), outp],
                                                stdout=subprocess.PIPE, stderr=subprocess.STDOUT, text=True)))
    rc = 0
    for i, outp, p in procs:
        out, _ = p.communicate()
        if p.returncode not in (0, 1) or not os.path.exists(outp):
            print("worker %d: exit %s\n%s" % (i, p.returncode, out[-3000:]))
            rc = max(rc, 2)
            continue
        j = json.load(open(outp))
        if j.get("failed"):
            f = j.get("fail") or {}
            print("C20 violation:", f.get("msg"))
            print("  minimal steps:", json.dumps(f.get("trace")))
            json.dump({"property": "C20", "tier": TIER, "seed": SEED, "sub": "machine", "case": {"ops": f.get("trace", [])}, "msg": f.get("msg")},
                      open(os.path.join(OUT, "fail-C20-%s-0.json" % UNIT), "w"), indent=1)
            if rc == 0:
                rc = 1
    return rc


if __name__ == "__main__":
    sys.exit(main())
